(* Obligations for the byte-granular state primitives (C08):
     ascon_add_bytes, ascon_overwrite_bytes, ascon_overwrite_with_zeroes, ascon_extract_bytes,
     ascon_extract_and_add_bytes, ascon_extract_and_overwrite_bytes
   as translated per backend and per (offset, size) by tools/kern_byteops.py.

   The translator supplies ONLY the program of each call (state image bytes and user buffers symbolic).  The
   specification is defined here, on the CANONICAL view of the state (Sym/Canon.view L: memory image -> the 40
   big-endian bytes), as plain list functions [bo_state] / [bo_output]; the check [bo_ok] compares, for all
   inputs,
        observe (prog v)      with      spec (observe v)
   where observe = (view L on the first 40 words) ++ (the user buffers as they are).

   Words are lists of bits, least significant first; a byte is a word of width 8.

   Input layout of a program (fixed here, [bo_widths]):
        40 bytes of the backend's memory image of the state,
        then the `size` bytes of the first user buffer (data / input; for extract: the output buffer's old content),
        then - operations with separate input and output only - the `size` old bytes of the output buffer.
   Output layout: the 40 bytes of the memory image after the call, then - operations with an output - the
   `size` bytes of the output buffer after the call.  User buffers are exactly `size` bytes long in the
   translator's memory model, so any access outside them makes the translation fail instead. *)
From Coq Require Import List PArith NArith Bool Arith Lia.
From AsconV Require Import Sym.BitPoly Sym.Wexpr Sym.Pipe Sym.Kernel Sym.Canon.
Import ListNotations.
Local Open Scope nat_scope.

Inductive bop :=
| BAdd | BOverwrite | BZero | BExtract
| BExtractAdd | BExtractAddInplace                 (* input and output distinct / the same buffer *)
| BExtractOverwrite | BExtractOverwriteInplace.

Definition all_bops : list bop :=
  [BAdd; BOverwrite; BZero; BExtract; BExtractAdd; BExtractAddInplace; BExtractOverwrite; BExtractOverwriteInplace].
Lemma in_all_bops op : In op all_bops. Proof. destruct op; cbn; tauto. Qed.

(* number of size-byte user buffers whose old content is an input of the program *)
Definition nbuf (op : bop) : nat :=
  match op with
  | BZero => 0
  | BAdd | BOverwrite | BExtract | BExtractAddInplace | BExtractOverwriteInplace => 1
  | BExtractAdd | BExtractOverwrite => 2
  end.

(* ---- the specification, on lists of bytes ------------------------------------------------------------- *)

Notation bword := (word BoolAlg).      (* = list bool *)
Definition xorw (a b : bword) : bword := map2 BoolAlg xorb a b.
Definition xorl (a b : list bword) : list bword := map (fun p => xorw (fst p) (snd p)) (combine a b).
Definition zero_byte : bword := repeat false 8.
Definition seg (off size : nat) (V : list bword) : list bword := firstn size (skipn off V).
Definition splice (off size : nat) (V X : list bword) : list bword := firstn off V ++ X ++ skipn (off + size) V.

(* V: the 40 canonical bytes before the call; data: the size bytes of the data / input buffer *)
Definition bo_state (op : bop) (off size : nat) (V data : list bword) : list bword :=
  match op with
  | BAdd => splice off size V (xorl (seg off size V) data)
  | BOverwrite | BExtractOverwrite | BExtractOverwriteInplace => splice off size V data
  | BZero => splice off size V (repeat zero_byte size)
  | BExtract | BExtractAdd | BExtractAddInplace => V
  end.
Definition bo_output (op : bop) (off size : nat) (V data : list bword) : list bword :=
  match op with
  | BAdd | BOverwrite | BZero => []
  | BExtract => seg off size V
  | BExtractAdd | BExtractAddInplace | BExtractOverwrite | BExtractOverwriteInplace => xorl (seg off size V) data
  end.

(* ---- the same specification as a pipeline (what the reflective checker can run) ---------------------- *)

Definition xor_prog (n : nat) : prog :=
  {| p_body := []; p_outs := map (fun i => WXor (WIn i) (WIn (n + i))) (seq 0 n) |}.
Definition zero_prog (n : nat) : prog := {| p_body := []; p_outs := repeat (WConst 8 0) n |}.

Definition pV : pipe := PFirst 40.
Definition pseg (off size : nat) : pipe := PSeq pV (PSeq (PSkip off) (PFirst size)).
Definition pdata (size : nat) : pipe := PSeq (PSkip 40) (PFirst size).
Definition psplice (off size : nat) (X : pipe) : pipe :=
  PPar (PSeq pV (PFirst off)) (PPar X (PSeq pV (PSkip (off + size)))).
Definition pxorp (off size : nat) : pipe := PSeq (PPar (pseg off size) (pdata size)) (PRun (xor_prog size)).
Definition pnil : pipe := PFirst 0.

Definition bo_spec (op : bop) (off size : nat) : pipe :=
  PPar (match op with
        | BAdd => psplice off size (pxorp off size)
        | BOverwrite | BExtractOverwrite | BExtractOverwriteInplace => psplice off size (pdata size)
        | BZero => psplice off size (PRun (zero_prog size))
        | BExtract | BExtractAdd | BExtractAddInplace => pV
        end)
       (match op with
        | BAdd | BOverwrite | BZero => pnil
        | BExtract => pseg off size
        | BExtractAdd | BExtractAddInplace | BExtractOverwrite | BExtractOverwriteInplace => pxorp off size
        end).

(* ---- obligations ---------------------------------------------------------------------------------------- *)

(* The translated programs are written with binary numbers (Sym/Wexpr.wexpr has unary indices: a generated file
   with thousands of `WTmp 700` takes minutes to parse); [conv_prog] maps them to Sym/Wexpr programs, and every
   statement below is about that Sym/Wexpr program [bc_prog c]. *)
Inductive cexpr :=
| CIn (i : N) | CTmp (i : N) | CConst (w n : N) | CNot (e : cexpr)
| CXor (a b : cexpr) | CAnd (a b : cexpr) | COr (a b : cexpr)
| CShl (k : N) (e : cexpr) | CShr (k : N) (e : cexpr) | CRotr (k : N) (e : cexpr)
| CZext (w : N) (e : cexpr) | CTrunc (w : N) (e : cexpr) | CConcat (hi lo : cexpr)
| CInterleave (ev od : cexpr) | CEven (e : cexpr) | COdd (e : cexpr).
Inductive clist := cnil | ccons (e : cexpr) (l : clist).      (* monomorphic: no implicit arguments to infer *)
Record cprog := { c_body : clist; c_outs : clist }.

Fixpoint conv (e : cexpr) : wexpr :=
  match e with
  | CIn i => WIn (N.to_nat i) | CTmp i => WTmp (N.to_nat i) | CConst w n => WConst (N.to_nat w) n
  | CNot e => WNot (conv e)
  | CXor a b => WXor (conv a) (conv b) | CAnd a b => WAnd (conv a) (conv b) | COr a b => WOr (conv a) (conv b)
  | CShl k e => WShl (N.to_nat k) (conv e) | CShr k e => WShr (N.to_nat k) (conv e) | CRotr k e => WRotr (N.to_nat k) (conv e)
  | CZext w e => WZext (N.to_nat w) (conv e) | CTrunc w e => WTrunc (N.to_nat w) (conv e)
  | CConcat hi lo => WConcat (conv hi) (conv lo)
  | CInterleave a b => WInterleave (conv a) (conv b) | CEven e => WEven (conv e) | COdd e => WOdd (conv e)
  end.
Fixpoint conv_list (l : clist) : list wexpr := match l with cnil => [] | ccons e l' => conv e :: conv_list l' end.
Definition conv_prog (p : cprog) : prog := {| p_body := conv_list (c_body p); p_outs := conv_list (c_outs p) |}.

Record bo_case := { bc_off : nat; bc_size : nat; bc_code : cprog }.
Definition bc_prog (c : bo_case) : prog := conv_prog (bc_code c).

Definition bo_widths (op : bop) (size : nat) : list nat := mem_widths ++ repeat 8 (nbuf op * size).
(* the canonical view of the state image, the user buffers as they are *)
Definition obs (L : klayout) : pipe := PPar (PSeq (PFirst 40) (view L)) (PSkip 40).

Definition bo_ok (L : klayout) (op : bop) (c : bo_case) : bool :=
  (bc_off c + bc_size c <=? 40) &&
  check_pipes (bo_widths op (bc_size c)) (PSeq (PRun (bc_prog c)) (obs L)) (PSeq (obs L) (bo_spec op (bc_off c) (bc_size c))).

(* what is proved of one translated call: for ALL memory images and ALL buffer contents *)
Definition byteop_correct (L : klayout) (op : bop) (c : bo_case) : Prop :=
  forall v : list (list bool), widths_of v = bo_widths op (bc_size c) ->
    let out := run BoolAlg v (bc_prog c) in
    let V := pexec BoolAlg (view L) (firstn 40 v) in
    let data := firstn (bc_size c) (skipn 40 v) in
    pexec BoolAlg (view L) (firstn 40 out) = bo_state op (bc_off c) (bc_size c) V data /\
    skipn 40 out = bo_output op (bc_off c) (bc_size c) V data.

(* all (offset, size) with offset + size <= 40, in the translator's order *)
Definition all_pairs : list (nat * nat) :=
  flat_map (fun off => map (fun size => (off, size)) (seq 0 (41 - off))) (seq 0 41).
Fixpoint pairs_eqb (a b : list (nat * nat)) : bool :=
  match a, b with
  | [], [] => true
  | (x, y) :: a', (x', y') :: b' => Nat.eqb x x' && Nat.eqb y y' && pairs_eqb a' b'
  | _, _ => false
  end.
Definition bo_pairs (t : list bo_case) : list (nat * nat) := map (fun c => (bc_off c, bc_size c)) t.
Definition bo_table_ok (L : klayout) (op : bop) (t : list bo_case) : bool :=
  forallb (bo_ok L op) t && pairs_eqb (bo_pairs t) all_pairs.

(* ---- soundness ------------------------------------------------------------------------------------------- *)

Lemma pairs_eqb_eq a : forall b, pairs_eqb a b = true -> a = b.
Proof.
  induction a as [|[x y] a IH]; intros b H; destruct b as [|[x' y'] b]; try discriminate; [reflexivity|].
  cbn in H. apply andb_true_iff in H. destruct H as [H H3]. apply andb_true_iff in H. destruct H as [H1 H2].
  apply Nat.eqb_eq in H1, H2. subst. f_equal. now apply IH.
Qed.

Lemma in_all_pairs off size : off + size <= 40 -> In (off, size) all_pairs.
Proof.
  intros H. unfold all_pairs. apply in_flat_map. exists off. split; [apply in_seq; lia|].
  apply in_map_iff. exists size. split; [reflexivity|]. apply in_seq. lia.
Qed.
Lemma all_pairs_in off size : In (off, size) all_pairs -> off + size <= 40.
Proof.
  unfold all_pairs. intros H. apply in_flat_map in H. destruct H as [o [Ho H]]. apply in_map_iff in H.
  destruct H as [s [E Hs]]. inversion E; subst. apply in_seq in Ho, Hs. lia.
Qed.

Lemma view_length L x : length (pexec BoolAlg (view L) x) = 40.
Proof. unfold view. cbn [pexec]. unfold run. rewrite map_length. reflexivity. Qed.

Lemma map_seq_combine (f : bword -> bword -> bword) : forall a b : list bword, length a = length b ->
  map (fun i => f (nth i a []) (nth i b [])) (seq 0 (length a)) = map (fun p => f (fst p) (snd p)) (combine a b).
Proof.
  induction a as [|x a IH]; intros b H; destruct b as [|y b]; try discriminate; [reflexivity|].
  cbn [length seq map combine fst snd nth]. f_equal.
  rewrite <- seq_shift, map_map. cbn [nth]. apply IH. cbn in H. lia.
Qed.

Lemma xor_prog_run (a b : list bword) n : length a = n -> length b = n ->
  run BoolAlg (a ++ b) (xor_prog n) = xorl a b.
Proof.
  intros Ha Hb. unfold run, xor_prog. cbn [p_body p_outs run_body fold_left]. rewrite map_map. cbn [eval].
  unfold xorl. rewrite <- (map_seq_combine xorw a b) by lia. rewrite Ha.
  apply map_ext_in. intros i Hi. apply in_seq in Hi. unfold xorw.
  rewrite app_nth1 by lia. rewrite <- Ha at 1. rewrite app_nth2_plus. reflexivity.
Qed.

Lemma zero_prog_run x n : run BoolAlg x (zero_prog n) = repeat zero_byte n.
Proof.
  unfold run, zero_prog. cbn [p_body p_outs run_body fold_left].
  induction n as [|n IH]; [reflexivity|]. cbn [repeat map]. rewrite IH. reflexivity.
Qed.

Lemma app_eq_split (A : Type) (a c b d : list A) : length a = length c -> a ++ b = c ++ d -> a = c /\ b = d.
Proof.
  revert c. induction a as [|x a IH]; intros c H E; destruct c as [|y c]; try discriminate; [now split|].
  cbn in E. inversion E; subst. cbn in H. destruct (IH c) as [E1 E2]; [lia|assumption|]. subst. now split.
Qed.

Lemma xorl_length a b : length (xorl a b) = Nat.min (length a) (length b).
Proof. unfold xorl. now rewrite map_length, combine_length. Qed.
Lemma seg_length off size V : off + size <= length V -> length (seg off size V) = size.
Proof. intros H. unfold seg. rewrite firstn_length, skipn_length. lia. Qed.
Lemma splice_length off size V X : off + size <= length V -> length X = size -> length (splice off size V X) = length V.
Proof. intros H HX. unfold splice. rewrite !app_length, firstn_length, skipn_length. lia. Qed.

(* the pipeline is the list-level specification *)
Lemma bo_spec_sem op off size (w : list bword) : off + size <= 40 -> length w = 40 + nbuf op * size ->
  pexec BoolAlg (bo_spec op off size) w =
  bo_state op off size (firstn 40 w) (firstn size (skipn 40 w)) ++ bo_output op off size (firstn 40 w) (firstn size (skipn 40 w)).
Proof.
  intros Hos Hw.
  assert (HV : length (firstn 40 w) = 40) by (rewrite firstn_length; lia).
  assert (X : nbuf op <> 0 -> run BoolAlg (seg off size (firstn 40 w) ++ firstn size (skipn 40 w)) (xor_prog size)
              = xorl (seg off size (firstn 40 w)) (firstn size (skipn 40 w))).
  { intros Hn. apply xor_prog_run; [apply seg_length; lia|]. rewrite firstn_length, skipn_length.
    destruct (nbuf op) as [|[|k]]; [congruence|lia|lia]. }
  destruct op; unfold bo_spec, bo_state, bo_output, psplice, pxorp, pseg, pdata, pnil, pV, splice;
    cbn [pexec]; unfold seg in *;
    try (rewrite X by (cbn [nbuf]; discriminate)); rewrite ?zero_prog_run, ?firstn_O, ?app_nil_r; reflexivity.
Qed.

Lemma bo_state_length op off size V data : off + size <= 40 -> length V = 40 -> (nbuf op <> 0 -> length data = size) ->
  length (bo_state op off size V data) = 40.
Proof.
  intros H HV Hd0.
  assert (Hd : op <> BZero -> length data = size) by (intros N; apply Hd0; destruct op; cbn; congruence).
  destruct op; try specialize (Hd ltac:(discriminate)); unfold bo_state; try exact HV; rewrite splice_length; try lia;
    try (rewrite xorl_length, seg_length; lia); try exact Hd; now rewrite repeat_length.
Qed.

Theorem bo_ok_sound L op c : bo_ok L op c = true -> byteop_correct L op c.
Proof.
  unfold bo_ok. intros H. apply andb_true_iff in H. destruct H as [Hos H]. apply Nat.leb_le in Hos.
  intros v Wv out V data.
  pose proof (check_pipes_sound _ _ _ H v Wv) as E. cbn [pexec obs] in E. fold out in E.
  assert (Lv : length v = 40 + nbuf op * bc_size c).
  { apply (f_equal (@length nat)) in Wv. unfold widths_of, bo_widths, mem_widths in Wv.
    rewrite map_length, app_length, !repeat_length in Wv. exact Wv. }
  set (w := pexec BoolAlg (view L) (firstn 40 v) ++ skipn 40 v) in E.
  assert (F40 : firstn 40 w = V).
  { unfold w. rewrite firstn_app, view_length, Nat.sub_diag, firstn_O, app_nil_r.
    apply firstn_all2. apply Nat.eq_le_incl. apply view_length. }
  assert (S40 : skipn 40 w = skipn 40 v).
  { unfold w. rewrite skipn_app, view_length, Nat.sub_diag. rewrite skipn_all2 by (apply Nat.eq_le_incl; apply view_length).
    reflexivity. }
  assert (Hw : length w = 40 + nbuf op * bc_size c).
  { unfold w. rewrite app_length, skipn_length. rewrite (view_length L (firstn 40 v)). lia. }
  pose proof (bo_spec_sem op _ _ w Hos Hw) as S. rewrite F40, S40 in S.
  pose proof (eq_trans E S) as E2. clear E S.
  apply app_eq_split in E2; [exact E2|].
  rewrite bo_state_length; [apply view_length|exact Hos|apply view_length|].
  intros N. rewrite firstn_length, skipn_length.
  destruct op; cbn [nbuf] in Lv, N; lia.
Qed.

(* a complete table: every (offset, size) that fits has its translated call, and that call is correct *)
Theorem bo_table_sound L op t : bo_table_ok L op t = true ->
  forall off size, off + size <= 40 ->
  exists c, In c t /\ bc_off c = off /\ bc_size c = size /\ byteop_correct L op c.
Proof.
  unfold bo_table_ok. intros H off size Hos. apply andb_true_iff in H. destruct H as [H1 H2].
  apply pairs_eqb_eq in H2. pose proof (in_all_pairs off size Hos) as I. rewrite <- H2 in I.
  unfold bo_pairs in I. apply in_map_iff in I. destruct I as [c [E Ic]]. inversion E; subst.
  exists c. split; [exact Ic|]. split; [reflexivity|]. split; [reflexivity|].
  apply bo_ok_sound. rewrite forallb_forall in H1. now apply H1.
Qed.

(* and nothing else is in it *)
Theorem bo_table_only L op t : bo_table_ok L op t = true ->
  forall c, In c t -> bc_off c + bc_size c <= 40 /\ byteop_correct L op c.
Proof.
  unfold bo_table_ok. intros H c Ic. apply andb_true_iff in H. destruct H as [H1 H2].
  rewrite forallb_forall in H1. specialize (H1 c Ic). split; [|now apply bo_ok_sound].
  unfold bo_ok in H1. apply andb_true_iff in H1. destruct H1 as [H1 _]. now apply Nat.leb_le in H1.
Qed.

Lemma all_pairs_length : length all_pairs = 861. Proof. reflexivity. Qed.
Lemma bo_table_length L op t : bo_table_ok L op t = true -> length t = 861.
Proof.
  unfold bo_table_ok. intros H. apply andb_true_iff in H. destruct H as [_ H]. apply pairs_eqb_eq in H.
  apply (f_equal (@length _)) in H. unfold bo_pairs in H. now rewrite map_length in H.
Qed.

(* a backend: its layout and one table per operation *)
Definition byteops_correct (L : klayout) (tables : bop -> list bo_case) : Prop :=
  forall op off size, off + size <= 40 ->
  exists c, In c (tables op) /\ bc_off c = off /\ bc_size c = size /\ byteop_correct L op c.
