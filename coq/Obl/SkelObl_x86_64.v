(* C09, acquire/release clause: the check of back end x86_64 (see Obl/SkelObl.v) over the table regenerated from
   /repo's current source on this run. *)
From Coq Require Import List Bool String.
From AsconV Require Import Model.Skel Obl.SkelObl Gen.Skeleton_x86_64.

Lemma checked_x86_64 : all_checked Skeleton_x86_64.configs = true.
Proof. vm_compute. reflexivity. Qed.
