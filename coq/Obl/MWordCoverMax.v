(* Coverage of the obligation tables for masked words of 16 and 24 bytes (ASCON_MASKED_MAX_SHARES = 2, 3) and of the
   direct-XOR x1 conversions (Gen/MW2_max*.v, Gen/MW2_dx_x1.v, tools/kern_mword_max.py) against hand-written requirement
   lists: those of Obl/MWordSpec.v instantiated with max = 2, 3 (they enumerate the share counts 2..max), and the key
   list below.  A function the translator no longer finds under -DASCON_MASKED_MAX_SHARES=k (it prints MISSING and the
   obligation is absent), a dropped size / offset, or a descriptor with another kind, share count or container size
   makes these fail; that the obligation's C function is the one named by (kind, shares) and that its observation and
   specification are the hand-written std_post / std_spec for THIS container size is part of Obl/FnObl.fn_obl_ok. *)
From Coq Require Import List Bool Arith.
From AsconV Require Import Sym.Wexpr Sym.Pipe Obl.FnObl Obl.FnOblParts Gen.MW2max_index.
Import ListNotations.

(* masked keys, 128 and 160 bits, KEY_SHARES = 2..max, in 32-byte key words used as masked words of 8*max bytes *)
Definition req_keys_max (be : mbackend) (max : nat) : list fn_req :=
  flat_map (fun n => flat_map (fun b => [(KKeyInit b, be, n, max); (KKeyExtract b, be, n, max); (KKeyRandomize b, be, n, max)]) [128; 160]) (seq 2 (max - 1)).

Definition req_words (be : mbackend) (max : nat) : list fn_req := req_toolkit be max true ++ req_ops be max.
Definition req_objects (be : mbackend) (max : nat) : list fn_req := req_states be max ++ req_x1 be false max ++ req_keys_max be max.

Lemma mwmax2_c64_words_covers : covers (concat mwmax2_c64_words_parts) (req_words B64 2) = true. Proof. vm_compute. reflexivity. Qed.
Lemma mwmax3_c64_words_covers : covers (concat mwmax3_c64_words_parts) (req_words B64 3) = true. Proof. vm_compute. reflexivity. Qed.
Lemma mwmax2_c32_words_covers : covers (concat mwmax2_c32_words_parts) (req_words B32 2) = true. Proof. vm_compute. reflexivity. Qed.
Lemma mwmax3_c32_words_covers : covers (concat mwmax3_c32_words_parts) (req_words B32 3) = true. Proof. vm_compute. reflexivity. Qed.
Lemma mwmax2_x86_words_covers : covers (concat mwmax2_x86_words_parts) (req_words B64 2) = true. Proof. vm_compute. reflexivity. Qed.
Lemma mwmax3_x86_words_covers : covers (concat mwmax3_x86_words_parts) (req_words B64 3) = true. Proof. vm_compute. reflexivity. Qed.
Lemma mwmax2_c64_objects_covers : covers (concat mwmax2_c64_objects_parts) (req_objects B64 2) = true. Proof. vm_compute. reflexivity. Qed.
Lemma mwmax3_c64_objects_covers : covers (concat mwmax3_c64_objects_parts) (req_objects B64 3) = true. Proof. vm_compute. reflexivity. Qed.
Lemma mwmax2_c32_objects_covers : covers (concat mwmax2_c32_objects_parts) (req_objects B32 2) = true. Proof. vm_compute. reflexivity. Qed.
Lemma mwmax3_c32_objects_covers : covers (concat mwmax3_c32_objects_parts) (req_objects B32 3) = true. Proof. vm_compute. reflexivity. Qed.
Lemma mw_dx_x1_covers : covers (concat mw_dx_x1_parts) (req_x1 B64 true 4) = true. Proof. vm_compute. reflexivity. Qed.

(* the x86-64 tables are the assembly front end's, the others the LLVM front end's; every descriptor carries the
   container size of its table *)
Definition all_front (f : frontend) (tab : list fn_obl) : bool :=
  forallb (fun o => match fd_front (fo_desc o), f with FLlvm, FLlvm | FX86, FX86 => true | _, _ => false end) tab.
Definition all_max (max : nat) (tab : list fn_obl) : bool := forallb (fun o => Nat.eqb (fd_max (fo_desc o)) max) tab.
Lemma fronts_max_ok :
  all_front FLlvm (concat mwmax2_c64_words_parts ++ concat mwmax3_c64_words_parts ++ concat mwmax2_c32_words_parts ++ concat mwmax3_c32_words_parts ++
                   concat mwmax2_c64_objects_parts ++ concat mwmax3_c64_objects_parts ++ concat mwmax2_c32_objects_parts ++ concat mwmax3_c32_objects_parts ++
                   concat mw_dx_x1_parts) &&
  all_front FX86 (concat mwmax2_x86_words_parts ++ concat mwmax3_x86_words_parts) &&
  all_max 2 (concat mwmax2_c64_words_parts ++ concat mwmax2_c32_words_parts ++ concat mwmax2_x86_words_parts ++ concat mwmax2_c64_objects_parts ++ concat mwmax2_c32_objects_parts) &&
  all_max 3 (concat mwmax3_c64_words_parts ++ concat mwmax3_c32_words_parts ++ concat mwmax3_x86_words_parts ++ concat mwmax3_c64_objects_parts ++ concat mwmax3_c32_objects_parts) &&
  all_max 4 (concat mw_dx_x1_parts) = true.
Proof. vm_compute. reflexivity. Qed.

(* sizes of the requirement lists (the tables have exactly as many obligations: Props.C10_maxshares_coverage) *)
Example req_max_sizes :
  map (@List.length fn_req) [req_words B64 2; req_words B64 3; req_objects B64 2; req_objects B64 3; req_x1 B64 true 4] = [40; 75; 10; 24; 6].
Proof. vm_compute. reflexivity. Qed.
