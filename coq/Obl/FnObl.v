(* Obligations for translated straight-line functions (masked-word toolkit, C10): the translated program
   followed by an observation program equals a specification program over the same inputs, for all inputs. *)
From Coq Require Import List Arith Bool String. Import ListNotations.
From AsconV Require Import Sym.Wexpr Sym.Pipe.

Record fn_obl := { fo_name : string; fo_widths : list nat; fo_prog : prog; fo_post : prog; fo_spec : prog }.

Definition fn_obl_ok (o : fn_obl) : bool :=
  check_pipes (fo_widths o) (PSeq (PRun (fo_prog o)) (PRun (fo_post o))) (PRun (fo_spec o)).

Theorem fn_obl_sound (os : list fn_obl) : forallb fn_obl_ok os = true ->
  forall o, In o os -> forall v : list (list bool), widths_of v = fo_widths o ->
  run BoolAlg (run BoolAlg v (fo_prog o)) (fo_post o) = run BoolAlg v (fo_spec o).
Proof.
  intros H o Ho v Wv. rewrite forallb_forall in H. specialize (H o Ho).
  exact (check_pipes_sound _ _ _ H v Wv).
Qed.
