(* Obligations for translated straight-line functions (masked-word toolkit, masked keys and states: C10; nonce helpers:
   C14): the translated program followed by an observation program equals a specification program over the same
   inputs, for all inputs.

   Only [fo_prog] (and the descriptor [fo_desc]) is information from the translator.  The observation and the
   specification are DEFINED in Obl/MWordSpec.v ([std_post] / [std_spec] of the descriptor); the copies the translator
   prints as [fo_post] / [fo_spec] (it evaluates them concretely to find counter-examples) must be syntactically
   those, the descriptor must be well-formed against the input widths, and its function name must be the one
   belonging to its kind and share count ([desc_wf]).  The soundness theorem is stated with [std_post] / [std_spec]. *)
From Coq Require Import List Arith Bool String. Import ListNotations.
From AsconV Require Import Sym.Wexpr Sym.Pipe.
From AsconV Require Export Obl.MWordSpec.

Record fn_obl := { fo_name : string; fo_widths : list nat; fo_prog : prog; fo_post : prog; fo_spec : prog; fo_desc : fn_desc }.

(* the generated specification side is the hand-written one *)
Definition fn_spec_ok (o : fn_obl) : bool :=
  desc_wf (fo_widths o) (fo_desc o) && prog_eqb (fo_post o) (std_post (fo_desc o)) && prog_eqb (fo_spec o) (std_spec (fo_desc o)).

Definition fn_obl_ok (o : fn_obl) : bool :=
  fn_spec_ok o && check_pipes (fo_widths o) (PSeq (PRun (fo_prog o)) (PRun (fo_post o))) (PRun (fo_spec o)).

(* what is proved of a translated function: its descriptor is well-formed and names the function of its kind, and
   for ALL inputs (share bytes, data bytes, random words; for assembly also the entry registers) the hand-written
   observation of its outputs equals the hand-written specification of its inputs *)
Definition fn_meets_std (o : fn_obl) : Prop :=
  desc_wf (fo_widths o) (fo_desc o) = true /\
  fd_fn (fo_desc o) = c_name (fd_kind (fo_desc o)) (fd_n (fo_desc o)) /\
  forall v : list (list bool), widths_of v = fo_widths o ->
  run BoolAlg (run BoolAlg v (fo_prog o)) (std_post (fo_desc o)) = run BoolAlg v (std_spec (fo_desc o)).

Lemma desc_wf_name w d : desc_wf w d = true -> fd_fn d = c_name (fd_kind d) (fd_n d).
Proof. unfold desc_wf. intros H. apply andb_true_iff in H. destruct H as [_ H]. now apply String.eqb_eq. Qed.

Lemma fn_obl_ok_sound o : fn_obl_ok o = true -> fn_meets_std o.
Proof.
  unfold fn_obl_ok, fn_spec_ok. intros H. apply andb_true_iff in H. destruct H as [H HC].
  apply andb_true_iff in H. destruct H as [H HS]. apply andb_true_iff in H. destruct H as [HW HP].
  apply prog_eqb_eq in HP. apply prog_eqb_eq in HS. rewrite HP, HS in HC.
  split; [exact HW|]. split; [exact (desc_wf_name _ _ HW)|]. intros v Wv. exact (check_pipes_sound _ _ _ HC v Wv).
Qed.

Theorem fn_obl_sound (os : list fn_obl) : forallb fn_obl_ok os = true -> forall o, In o os -> fn_meets_std o.
Proof. intros H o Ho. rewrite forallb_forall in H. exact (fn_obl_ok_sound o (H o Ho)). Qed.

(* ---- coverage: the hand-written requirement lists of Obl/MWordSpec.v (req_toolkit, req_ops, ...) against a table *)
Definition req_in (tab : list fn_obl) (q : fn_req) : bool := existsb (fun o => desc_meets q (fo_desc o)) tab.
Definition covers (tab : list fn_obl) (reqs : list fn_req) : bool := forallb (req_in tab) reqs.

Definition covered (tab : list fn_obl) (reqs : list fn_req) : Prop :=
  forall k be n max, In (k, be, n, max) reqs ->
  exists o, In o tab /\ fd_kind (fo_desc o) = k /\ fd_be (fo_desc o) = be /\ fd_n (fo_desc o) = n /\ fd_max (fo_desc o) = max.

Lemma covers_sound tab reqs : covers tab reqs = true -> covered tab reqs.
Proof.
  unfold covers, covered. intros H k be n max I. rewrite forallb_forall in H. specialize (H _ I).
  unfold req_in in H. apply existsb_exists in H. destruct H as [o [Io M]]. exists o. split; [exact Io|].
  exact (desc_meets_sound _ _ _ _ _ M).
Qed.

(* the statement of the C10 / C14 (T) theorems: every obligation of the table meets the hand-written specification of
   its descriptor, and every required (kind, value algebra, shares, MAX_SHARES) has an obligation in the table - whose
   function is then, by [fn_meets_std], the C function named [c_name kind shares] *)
Definition table_correct (tab : list fn_obl) (reqs : list fn_req) : Prop :=
  (forall o, In o tab -> fn_meets_std o) /\ covered tab reqs.

Theorem table_sound tab reqs : forallb fn_obl_ok tab = true -> covers tab reqs = true -> table_correct tab reqs.
Proof. intros H C. split; [exact (fn_obl_sound tab H)|exact (covers_sound tab reqs C)]. Qed.

(* the same fact stated with the printed copies (equal to std_post / std_spec by [fn_spec_ok]); kept for the older
   statement Props.C14_helpers_translated *)
Theorem fn_obl_sound_printed (os : list fn_obl) : forallb fn_obl_ok os = true ->
  forall o, In o os -> forall v : list (list bool), widths_of v = fo_widths o ->
  run BoolAlg (run BoolAlg v (fo_prog o)) (fo_post o) = run BoolAlg v (fo_spec o).
Proof.
  intros H o Ho v Wv. rewrite forallb_forall in H. specialize (H o Ho). unfold fn_obl_ok in H.
  apply andb_true_iff in H. destruct H as [_ HC]. exact (check_pipes_sound _ _ _ HC v Wv).
Qed.
