(* C11 layer 1: what the regenerated leakage table (Gen/CtKernels.v, tools/kern_ct.py) must contain.
   The lists below are written by hand - they are NOT produced by the run - so a function that
   gets stuck (a data-dependent branch / address / shift count / length), is renamed or dropped
   from the generator makes `ct_table_ok` false instead of silently shrinking the table. *)
From Coq Require Import List NArith String Bool Arith.
From AsconV Require Import Sym.CtTable Gen.CtKernels.
Import ListNotations.
Local Open Scope string_scope.
Local Open Scope list_scope.
Notation "a +s+ b" := (String.append a b) (at level 60, right associativity).

Definition digit (n : nat) : string := match n with 2 => "2" | 3 => "3" | _ => "4" end.
Definition on_cfgs (cfgs : list string) (fns : list string) (ctls : list (list N)) : list ct_req :=
  flat_map (fun cfg => map (fun fn => (fn, cfg, ctls)) fns) cfgs.

(* --- kernels: exact control tuples -------------------------------------- *)
Definition byterange_fns : list string :=
  ["ascon_add_bytes"; "ascon_overwrite_bytes"; "ascon_overwrite_with_zeroes"; "ascon_extract_bytes";
   "ascon_extract_and_add_bytes"; "ascon_extract_and_overwrite_bytes"].

Definition mw (n : nat) (s : string) : string := "ascon_masked_word_x" +s+ digit n +s+ "_" +s+ s.
Definition masked_word_reqs (cfg : string) : list ct_req :=
  flat_map (fun n =>
    [(mw n "zero", cfg, [[]]); (mw n "load", cfg, [[]]); (mw n "load_32", cfg, [[]]); (mw n "store", cfg, [[]]);
     (mw n "randomize", cfg, [[]]); (mw n "xor", cfg, [[]]);
     (mw n "load_partial", cfg, singles (nrange 0 8)); (mw n "store_partial", cfg, singles (nrange 0 8));
     (mw n "replace", cfg, singles (nrange 1 7))] ++
    map (fun m => (mw n ("from_x" +s+ digit m), cfg, [[]])) (filter (fun m => negb (Nat.eqb m n)) [2; 3; 4]%nat)) [2; 3; 4]
  ++ [("ascon_masked_word_pad", cfg, singles (nrange 0 8)); ("ascon_masked_word_separator", cfg, [[]])].

Definition rounds13 : list (list N) := singles (nrange 0 13).

Definition ct_required : list ct_req :=
  [("ascon_aead_check_tag", "default", check_tag_ctls); ("ascon_aead_increment_nonce", "default", [[]])]
  ++ on_cfgs ["default"; "c32"; "directxor"] byterange_fns off_size_pairs
  ++ masked_word_reqs "x86_64_asm" ++ masked_word_reqs "c64" ++ masked_word_reqs "c32"
  ++ on_cfgs ["x86_64_asm"; "c64"; "c32"; "directxor"] ["ascon_permute"] rounds13
  ++ on_cfgs ["x86_64_asm"; "c64"; "c32"] ["ascon_x2_permute"; "ascon_x3_permute"; "ascon_x4_permute"] rounds13.

(* --- keyed mode-level functions: must be present (with all their shapes ok) in these configurations --- *)
Definition algs : list string := ["ascon128"; "ascon128a"; "ascon80pq"].
Definition per_alg : list string :=
  ["_aead_encrypt"; "_aead_decrypt"; "_siv_encrypt"; "_siv_decrypt"; "_isap_aead_encrypt"; "_isap_aead_decrypt"; "_isap_aead_init";
   "_aead_start"; "_aead_encrypt_block"; "_aead_decrypt_block"; "_aead_encrypt_finalize"; "_aead_decrypt_finalize"].
Definition mode_fns3 : list string :=
  flat_map (fun a => map (fun s => a +s+ s) per_alg) algs ++
  ["ascon_prf"; "ascon_prf_fixed"; "ascon_prf_short"; "ascon_mac"; "ascon_mac_verify"; "ascon_prf_absorb"; "ascon_prf_squeeze";
   "ascon_pbkdf2"; "ascon_kmac"; "ascon_kdf"; "ascon_kmaca"; "ascon_kdfa";
   "ascon_random_init"; "ascon_random_reseed"; "ascon_random_fetch"; "ascon_random_feed";
   "ascon_trng_init"; "ascon_trng_generate_32"; "ascon_trng_generate_64"; "ascon_trng_reseed"].
Definition mode_fns2 : list string :=
  ["ascon_hmac"; "ascon_hkdf"; "ascon_hkdf_expand"; "ascon_hmaca"; "ascon_hkdfa"; "ascon_hkdfa_expand"; "ascon_pbkdf2_hmac"].
Definition ct_required_modes : list (string * string) :=
  flat_map (fun cfg => map (fun fn => (fn, cfg)) mode_fns3) ["default"; "c32"; "directxor"] ++
  flat_map (fun cfg => map (fun fn => (fn, cfg)) mode_fns2) ["default"; "c32"].

(* present with at least `k` shapes, all of them ok *)
Definition mode_present (tab : list ct_entry) (q : string * string) : bool :=
  existsb (fun e => if String.eqb (ce_fn e) (fst q) then if String.eqb (ce_cfg e) (snd q) then ct_entry_ok e else false else false) tab.

Definition ct_table_ok : bool :=
  forallb ct_entry_ok ct_entries && forallb (req_met ct_entries) ct_required && forallb (mode_present ct_entries) ct_required_modes.

(* stated in expanded form, syntactically the statement of Props.C11_kernels: the kernel then compares two
   identical terms instead of evaluating the table a second time with its lazy machine *)
Lemma ct_table_checked :
  forallb ct_entry_ok ct_entries && forallb (req_met ct_entries) ct_required &&
  forallb (mode_present ct_entries) ct_required_modes = true.
Proof. vm_compute. reflexivity. Qed.

(* numbers for the evidence *)
Definition ct_count_runs : nat := fold_right (fun e n => (List.length (ce_runs e) + n)%nat) 0%nat ct_entries.
