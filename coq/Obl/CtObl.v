(* C11 layer 1: what the regenerated leakage table (Gen/CtKernels.v, tools/kern_ct.py) must contain.
   The lists below are written by hand - they are NOT produced by the run - so a function that
   gets stuck (a data-dependent branch / address / shift count / length), is renamed or dropped
   from the generator makes `ct_table_ok` false instead of silently shrinking the table. *)
From Coq Require Import List NArith String Bool Arith.
From AsconV Require Import Sym.CtTable Gen.CtKernels.
Import ListNotations.
Local Open Scope string_scope.
Local Open Scope list_scope.
Notation "a +s+ b" := (String.append a b) (at level 60, right associativity).

Definition digit (n : nat) : string := match n with 2 => "2" | 3 => "3" | _ => "4" end.
Definition on_cfgs (cfgs : list string) (fns : list string) (ctls : list (list N)) : list ct_req :=
  flat_map (fun cfg => map (fun fn => (fn, cfg, ctls)) fns) cfgs.

(* --- kernels: exact control tuples -------------------------------------- *)
Definition byterange_fns : list string :=
  ["ascon_add_bytes"; "ascon_overwrite_bytes"; "ascon_overwrite_with_zeroes"; "ascon_extract_bytes";
   "ascon_extract_and_add_bytes"; "ascon_extract_and_overwrite_bytes"].

Definition mw (n : nat) (s : string) : string := "ascon_masked_word_x" +s+ digit n +s+ "_" +s+ s.
Definition masked_word_reqs (cfg : string) : list ct_req :=
  flat_map (fun n =>
    [(mw n "zero", cfg, [[]]); (mw n "load", cfg, [[]]); (mw n "load_32", cfg, [[]]); (mw n "store", cfg, [[]]);
     (mw n "randomize", cfg, [[]]); (mw n "xor", cfg, [[]]);
     (mw n "load_partial", cfg, singles (nrange 0 8)); (mw n "store_partial", cfg, singles (nrange 0 8));
     (mw n "replace", cfg, singles (nrange 1 7))] ++
    map (fun m => (mw n ("from_x" +s+ digit m), cfg, [[]])) (filter (fun m => negb (Nat.eqb m n)) [2; 3; 4]%nat)) [2; 3; 4]
  ++ [("ascon_masked_word_pad", cfg, singles (nrange 0 8)); ("ascon_masked_word_separator", cfg, [[]])].

Definition rounds13 : list (list N) := singles (nrange 0 13).

(* --- key life cycles (audit 2, gap 6): functions that take a key, a saved key image or a session nonce and were in no
   layer.  Exact control tuples, so that dropping a shape (e.g. the NULL-key form of *_aead_reinit) breaks the theorem.
     <alg>_isap_aead_init / _load_key / _save_key / _free      no control argument; key, 80-byte image, key object secret
     <alg>_aead_init   [npub_given; k_given]                   0 = NULL, 1 = a buffer; contents of both secret
     <alg>_aead_reinit [npub_given; k_given]                   npub_given = 2: the object's own nonce field
     ascon_prf_reinit, ascon_prf_fixed_reinit [outlen]         2^29 = the "too large, arbitrary length" branch
     ascon_hmac(a)_reinit [keylen]                             64/65 = the block-size boundary (long keys are hashed first)
     ascon_kmac(a)_reinit, ascon_kdf(a)_reinit [keylen; customlen; outlen]   outlen 32 = KMAC's precomputed-IV path *)
Definition algs : list string := ["ascon128"; "ascon128a"; "ascon80pq"].
Definition pairs_of (a b : list N) : list (list N) := flat_map (fun x => map (fun y => [x; y]) b) a.
Definition triples_of (a b c : list N) : list (list N) := flat_map (fun x => flat_map (fun y => map (fun z => [x; y; z]) c) b) a.
Definition lifecycle_per_alg : list (string * list (list N)) :=
  [("_isap_aead_init", [[]]); ("_isap_aead_load_key", [[]]); ("_isap_aead_save_key", [[]]); ("_isap_aead_free", [[]]);
   ("_aead_init", pairs_of [1; 0]%N [1; 0]%N); ("_aead_reinit", pairs_of [1; 0; 2]%N [1; 0]%N)].
Definition kco : list (list N) := triples_of [0; 16; 33]%N [0; 5]%N [0; 32; 41]%N.
Definition lifecycle_fns3 : list (string * list (list N)) :=
  [("ascon_prf_reinit", [[]]); ("ascon_prf_fixed_reinit", singles [0; 1; 16; 536870912]%N);
   ("ascon_kmac_reinit", kco); ("ascon_kmaca_reinit", kco); ("ascon_kdf_reinit", kco); ("ascon_kdfa_reinit", kco)].
Definition lifecycle_fns2 : list (string * list (list N)) :=
  [("ascon_hmac_reinit", singles [0; 16; 32; 33; 64; 65; 100]%N); ("ascon_hmaca_reinit", singles [0; 16; 32; 33; 64; 65; 100]%N)].
Definition ct_required_lifecycle : list ct_req :=
  flat_map (fun cfg => flat_map (fun a => map (fun q => (a +s+ fst q, cfg, snd q)) lifecycle_per_alg) algs ++
                       map (fun q => (fst q, cfg, snd q)) lifecycle_fns3) ["default"; "c32"; "directxor"]
  ++ flat_map (fun cfg => map (fun q => (fst q, cfg, snd q)) lifecycle_fns2) ["default"; "c32"].

Definition ct_required : list ct_req :=
  [("ascon_aead_check_tag", "default", check_tag_ctls); ("ascon_aead_increment_nonce", "default", [[]])]
  ++ ct_required_lifecycle
  ++ on_cfgs ["default"; "c32"; "directxor"] byterange_fns off_size_pairs
  ++ masked_word_reqs "x86_64_asm" ++ masked_word_reqs "c64" ++ masked_word_reqs "c32"
  ++ on_cfgs ["x86_64_asm"; "c64"; "c32"; "directxor"] ["ascon_permute"] rounds13
  ++ on_cfgs ["x86_64_asm"; "c64"; "c32"] ["ascon_x2_permute"; "ascon_x3_permute"; "ascon_x4_permute"] rounds13.

(* --- keyed mode-level functions: must be present (with all their shapes ok) in these configurations --- *)
Definition per_alg : list string :=
  ["_aead_encrypt"; "_aead_decrypt"; "_siv_encrypt"; "_siv_decrypt"; "_isap_aead_encrypt"; "_isap_aead_decrypt"; "_isap_aead_init";
   "_isap_aead_load_key"; "_isap_aead_save_key"; "_isap_aead_free"; "_aead_init"; "_aead_reinit";
   "_aead_start"; "_aead_encrypt_block"; "_aead_decrypt_block"; "_aead_encrypt_finalize"; "_aead_decrypt_finalize"].
Definition mode_fns3 : list string :=
  flat_map (fun a => map (fun s => a +s+ s) per_alg) algs ++
  ["ascon_prf"; "ascon_prf_fixed"; "ascon_prf_short"; "ascon_mac"; "ascon_mac_verify"; "ascon_prf_absorb"; "ascon_prf_squeeze";
   "ascon_prf_reinit"; "ascon_prf_fixed_reinit"; "ascon_kmac_reinit"; "ascon_kmaca_reinit"; "ascon_kdf_reinit"; "ascon_kdfa_reinit";
   "ascon_pbkdf2"; "ascon_kmac"; "ascon_kdf"; "ascon_kmaca"; "ascon_kdfa";
   "ascon_random_init"; "ascon_random_reseed"; "ascon_random_fetch"; "ascon_random_feed";
   "ascon_trng_init"; "ascon_trng_generate_32"; "ascon_trng_generate_64"; "ascon_trng_reseed"].
Definition mode_fns2 : list string :=
  ["ascon_hmac"; "ascon_hkdf"; "ascon_hkdf_expand"; "ascon_hmaca"; "ascon_hkdfa"; "ascon_hkdfa_expand"; "ascon_pbkdf2_hmac";
   "ascon_hmac_reinit"; "ascon_hmaca_reinit"].
Definition ct_required_modes : list (string * string) :=
  flat_map (fun cfg => map (fun fn => (fn, cfg)) mode_fns3) ["default"; "c32"; "directxor"] ++
  flat_map (fun cfg => map (fun fn => (fn, cfg)) mode_fns2) ["default"; "c32"].

(* present with at least `k` shapes, all of them ok *)
Definition mode_present (tab : list ct_entry) (q : string * string) : bool :=
  existsb (fun e => if String.eqb (ce_fn e) (fst q) then if String.eqb (ce_cfg e) (snd q) then ct_entry_ok e else false else false) tab.

Definition ct_table_ok : bool :=
  forallb ct_entry_ok ct_entries && forallb (req_met ct_entries) ct_required && forallb (mode_present ct_entries) ct_required_modes.

(* stated in expanded form, syntactically the statement of Props.C11_kernels: the kernel then compares two
   identical terms instead of evaluating the table a second time with its lazy machine *)
Lemma ct_table_checked :
  forallb ct_entry_ok ct_entries && forallb (req_met ct_entries) ct_required &&
  forallb (mode_present ct_entries) ct_required_modes = true.
Proof. vm_compute. reflexivity. Qed.

(* numbers for the evidence *)
Definition ct_count_runs : nat := fold_right (fun e n => (List.length (ce_runs e) + n)%nat) 0%nat ct_entries.

(* the key-life-cycle part on its own: 76 (function, configuration) requirements with 385 control tuples, every one met by the
   regenerated table with exactly the listed tuples; a sample of what the list holds *)
Definition ct_lifecycle_tuples : nat := fold_right (fun q n => (List.length (snd q) + n)%nat) 0%nat ct_required_lifecycle.
Definition req_has (fn cfg : string) (ctl : list N) (l : list ct_req) : bool :=
  existsb (fun q => String.eqb (fst (fst q)) fn && String.eqb (snd (fst q)) cfg && existsb (nlist_eqb ctl) (snd q)) l.
Lemma ct_lifecycle_checked :
  forallb (req_met ct_entries) ct_required_lifecycle = true /\
  List.length ct_required_lifecycle = 76%nat /\ ct_lifecycle_tuples = 385%nat /\
  incl ct_required_lifecycle ct_required /\
  req_has "ascon80pq_isap_aead_load_key" "c32" [] ct_required_lifecycle = true /\
  req_has "ascon128a_isap_aead_save_key" "directxor" [] ct_required_lifecycle = true /\
  req_has "ascon80pq_aead_reinit" "default" [2; 0]%N ct_required_lifecycle = true /\
  req_has "ascon_prf_fixed_reinit" "c32" [536870912]%N ct_required_lifecycle = true /\
  req_has "ascon_hmaca_reinit" "default" [65]%N ct_required_lifecycle = true /\
  req_has "ascon_kmac_reinit" "directxor" [33; 5; 32]%N ct_required_lifecycle = true /\
  req_has "ascon_kdfa_reinit" "default" [0; 0; 41]%N ct_required_lifecycle = true.
Proof.
  split; [vm_compute; reflexivity|]. split; [vm_compute; reflexivity|]. split; [vm_compute; reflexivity|].
  split; [unfold ct_required; intros q Hq; apply in_or_app; right; apply in_or_app; left; exact Hq|].
  repeat split; vm_compute; reflexivity.
Qed.
