(* The masked-kernel obligation `vbackend_ok` checked in parts: the segment list of a kernel is the
   concatenation of several lists, each in its own generated file whose per-segment check
   (`forallb (check_vseg ifs) part = true`, the expensive reflective step) compiles in parallel with the
   others; the cheap structural part (chains link up, cover first_round 0..12, rounds are k..11) is checked
   on the concatenation.  Used by the 32-bit masked kernels (Gen/Masked*_c32*.v), whose programs are twice
   as long as the 64-bit ones. *)
From Coq Require Import List Arith Bool Lia. Import ListNotations.
From AsconV Require Import Sym.Wexpr Sym.Pipe Sym.Kernel Sym.KernelP Sym.VKernel Obl.KernMaskedDefs.

Fixpoint parts_ok (ifs : list viface) (parts : list (list vseg)) : Prop :=
  match parts with
  | [] => True
  | p :: rest => forallb (check_vseg ifs) p = true /\ parts_ok ifs rest
  end.

Definition vstruct_ok (ein eout : nat) (segs : list vseg) (chains : list (nat * list nat)) : bool :=
  forallb (vchain_ok ein eout segs) chains && nat_list_eqb (map fst chains) (seq 0 13).

Lemma parts_ok_concat ifs : forall parts, parts_ok ifs parts -> forallb (check_vseg ifs) (concat parts) = true.
Proof.
  induction parts as [|p rest IH]; intros H; [reflexivity|].
  cbn [parts_ok] in H. destruct H as [H1 H2]. cbn [concat]. rewrite forallb_app, H1, (IH H2). reflexivity.
Qed.

Theorem vbackend_ok_parts ifs ein eout parts chains :
  parts_ok ifs parts -> vstruct_ok ein eout (concat parts) chains = true ->
  vbackend_ok ifs ein eout (concat parts) chains = true.
Proof.
  intros HP HS. unfold vbackend_ok. unfold vstruct_ok in HS. apply andb_true_iff in HS. destruct HS as [H1 H2].
  rewrite (parts_ok_concat ifs parts HP), H1, H2. reflexivity.
Qed.
