(* C18 sub-check 2: obligations for the checked-in assembly permutations of the non-host ISAs.
   Gen/Kern_<name>.v is regenerated from /repo on every run by tools/kern_perm.py through the front ends
   tools/asm_arm.py, asm_i386.py, asm_m68k.py (symbolic execution of the preprocessed .S text, cut at the
   round labels); every segment is re-checked here for all inputs.  Trusted: the per-ISA lowering tables. *)
From Coq Require Import List Arith Bool. Import ListNotations.
From AsconV Require Import Sym.Wexpr Sym.Pipe Sym.Kernel Sym.KernelP Obl.KernPerm
  Gen.Kern_armv8a Gen.Kern_armv7m Gen.Kern_armv6 Gen.Kern_armv6m Gen.Kern_i386 Gen.Kern_m68k Gen.Kern_m68kcf.

(* ascon-asm-armv8a-64.S (AArch64, sliced64 little-endian) *)
Lemma armv8a_ok : backend_ok armv8a_layout armv8a_segs armv8a_chains = true. Proof. vm_compute. reflexivity. Qed.
(* ascon-asm-armv7m.S (Thumb-2, sliced32) *)
Lemma armv7m_ok : backend_ok armv7m_layout armv7m_segs armv7m_chains = true. Proof. vm_compute. reflexivity. Qed.
(* ascon-asm-armv6.S (A32, sliced32) *)
Lemma armv6_ok : backend_ok armv6_layout armv6_segs armv6_chains = true. Proof. vm_compute. reflexivity. Qed.
(* ascon-asm-armv6m.S (16-bit Thumb, sliced32; jump-table dispatch) *)
Lemma armv6m_ok : backend_ok armv6m_layout armv6m_segs armv6m_chains = true. Proof. vm_compute. reflexivity. Qed.
(* ascon-asm-i386.S (AT&T, cdecl, sliced32; odd halves live in the frame) *)
Lemma i386_ok : backend_ok i386_layout i386_segs i386_chains = true. Proof. vm_compute. reflexivity. Qed.
(* ascon-asm-m68k.S without __mcoldfire__ (big-endian sliced32 = KL32BE) *)
Lemma m68k_ok : backend_ok m68k_layout m68k_segs m68k_chains = true. Proof. vm_compute. reflexivity. Qed.
(* ascon-asm-m68k.S with __mcoldfire__ (rotates expanded to shifts) *)
Lemma m68kcf_ok : backend_ok m68kcf_layout m68kcf_segs m68kcf_chains = true. Proof. vm_compute. reflexivity. Qed.
