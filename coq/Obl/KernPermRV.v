(* C18, sub-check 2: obligations for the checked-in RISC-V and Xtensa assembly permutations
   (src/core/ascon-asm-riscv64i.S, -riscv32i.S, -riscv32e.S, -xtensa.S in both ABI variants),
   lowered instruction by instruction by tools/asm_riscv.py / tools/asm_xtensa.py and regenerated from
   /repo on every run (Gen/Kern_<name>.v).  For every first_round 0..12 the translated chain of segments,
   cut at the round labels .L0 .. .L12, equals dec ; rounds first_round..11 ; enc on all 2^320 states. *)
From Coq Require Import List Arith Bool NArith. Import ListNotations.
From AsconV Require Import Sym.Wexpr Sym.Pipe Sym.Kernel Sym.KernelP Obl.KernPerm
  Gen.Kern_rv64i Gen.Kern_rv32i Gen.Kern_rv32e Gen.Kern_xtensa Gen.Kern_xtensa_call0.

Lemma rv64i_ok : backend_ok rv64i_layout rv64i_segs rv64i_chains = true. Proof. vm_compute. reflexivity. Qed.
Lemma rv32i_ok : backend_ok rv32i_layout rv32i_segs rv32i_chains = true. Proof. vm_compute. reflexivity. Qed.
Lemma rv32e_ok : backend_ok rv32e_layout rv32e_segs rv32e_chains = true. Proof. vm_compute. reflexivity. Qed.
Lemma xtensa_ok : backend_ok xtensa_layout xtensa_segs xtensa_chains = true. Proof. vm_compute. reflexivity. Qed.
Lemma xtensa_call0_ok : backend_ok xtensa_call0_layout xtensa_call0_segs xtensa_call0_chains = true. Proof. vm_compute. reflexivity. Qed.

(* the layouts the files are documented to use (ascon-select-backend.h: SLICED64 for RV64I and Xtensa,
   SLICED32 for RV32I/E); fixed here so that a translator emitting another layout is noticed *)
Lemma rv_layouts : rv64i_layout = KL64 /\ rv32i_layout = KL32 /\ rv32e_layout = KL32 /\ xtensa_layout = KL64 /\ xtensa_call0_layout = KL64.
Proof. repeat split. Qed.

(* same statement as Props/Properties_C08.perm_correct *)
Definition kern_perm_correct (L : klayout) (segs : list seg) (chains : list (nat * list nat)) : Prop :=
  forall k, k <= 12 -> exists idx, In (k, idx) chains /\
  forall m oo, widths_of m = mem_widths -> widths_of oo = entry_others (chain_of segs idx) ->
  run_chain (chain_of segs idx) (m ++ oo) = pexec BoolAlg (chain_spec L (seq k (12 - k))) m.

(* memory image of a canonical (big-endian bytes) state under a layout, on bit lists; used by the non-vacuity examples *)
Definition bits8 (b : N) : list bool := map (N.testbit b) (map N.of_nat (seq 0 8)).
Definition byte_of_bits (l : list bool) : N := fold_right (fun (b : bool) acc => (if b then 1 else 0) + 2 * acc)%N 0%N l.
Fixpoint chunk (n fuel : nat) {A} (l : list A) : list (list A) :=
  match fuel, l with
  | S f, _ :: _ => firstn n l :: chunk n f (skipn n l)
  | _, _ => []
  end.
Fixpoint evens {A} (l : list A) : list A := match l with a :: _ :: r => a :: evens r | a :: nil => [a] | nil => nil end.
Fixpoint odds {A} (l : list A) : list A := match l with _ :: b :: r => b :: odds r | _ => nil end.
(* the 64 bits of a word, least significant first, from its 8 canonical bytes *)
Definition word_bits (be : list N) : list bool := concat (map bits8 (rev be)).
Definition mem_image (L : klayout) (s : list N) : list (list bool) :=
  flat_map (fun be => match L with
                      | KL8 => map bits8 be
                      | KL64 => chunk 8 8 (word_bits be)
                      | _ => chunk 8 8 (evens (word_bits be) ++ odds (word_bits be))      (* KL32; wildcard so that a further klayout constructor does not break this match *)
                      end) (chunk 8 5 s).
Definition run_backend_on (L : klayout) (segs : list seg) (chains : list (nat * list nat)) (k : nat) (s : list N) : list N :=
  let ch := chain_of segs (snd (nth k chains (0, []))) in
  map byte_of_bits (run_chain ch (mem_image L s ++ map (fun w => repeat false w) (entry_others ch))).
Definition image_bytes (L : klayout) (s : list N) : list N := map byte_of_bits (mem_image L s).
