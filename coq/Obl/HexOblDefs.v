(* C20 (T): the C source of ascon_bytes_to_hex / ascon_bytes_from_hex, as
   translated from the clang AST of /repo's working tree into Gen/HexAst.v on
   this run and executed by the interpreter of Sym/MiniC.v, against the
   hand-written model Model/Hexm.v.

   [dec_body_agrees], [enc_body_agrees]: ONE ITERATION of each while loop,
   for the complete control domain of the iteration -
     decoder: all 256 values of the character (as the signed char the C
     reads) x (no pending nibble, or any of the 16 pending high nibbles) x
     (space left / no space left), at representative positions posn in {0, 2};
     encoder: all 256 byte values x (upper_case = 0, 1, -5) x posn in {0, 3};
   the translated body and the model's step function leave the same memory,
   posn, value, nibble (and consume one input cell), or both return -1.
   What is NOT proved here: that agreement at these positions extends to
   every posn/outlen (the bodies use posn only as an index and in the single
   comparison posn >= outlen, which is what the space flag enumerates).
   [dec_fn_agrees], [enc_fn_agrees]: the WHOLE translated functions
   (prologue, loop, epilogue) against from_hex / to_hex on a fixed list of
   inputs, including short buffers; guard cells behind the buffer included. *)
From AsconV Require Import Sym.MiniC Gen.HexAst Model.Hexm.
From Coq Require Import ZArith List String.
Import ListNotations.
Local Open Scope Z_scope.
Local Open Scope string_scope.

Definition zs (l : list N) : list Z := map Z.of_N l.
Definition ns (l : list Z) : list N := map Z.to_N l.
Definition schar (b : N) : Z := if (b <? 128)%N then Z.of_N b else Z.of_N b - 256.   (* the char the C reads for byte b *)
Definition nrange (n : nat) : list N := map N.of_nat (seq 0 n).

Inductive obs :=
| Next (mem : list N) (posn : Z) (value : Z) (nibble : Z) (in_off : Z) (inlen : Z)
| Ret (r : Z) (mem : list N)
| Bad.

Fixpoint nlist_eqb (a b : list N) : bool :=
  match a, b with
  | [], [] => true
  | x :: a', y :: b' => N.eqb x y && nlist_eqb a' b'
  | _, _ => false
  end.
Lemma nlist_eqb_eq a : forall b, nlist_eqb a b = true -> a = b.
Proof.
  induction a as [|x a IH]; intros [|y b] H; cbn [nlist_eqb] in H; try discriminate; [reflexivity|].
  apply andb_prop in H. destruct H as [H1 H2]. apply N.eqb_eq in H1. rewrite (IH b H2), H1. reflexivity.
Qed.
(* [Bad] equals nothing, not even itself: a stuck run never counts as agreement *)
Definition obs_eqb (a b : obs) : bool :=
  match a, b with
  | Next m p v n i l, Next m' p' v' n' i' l' =>
    nlist_eqb m m' && Z.eqb p p' && Z.eqb v v' && Z.eqb n n' && Z.eqb i i' && Z.eqb l l'
  | Ret r m, Ret r' m' => Z.eqb r r' && nlist_eqb m m'
  | _, _ => false
  end.
Lemma obs_eqb_eq a b : obs_eqb a b = true -> a = b /\ a <> Bad.
Proof.
  destruct a as [m p v n i l|r m|], b as [m' p' v' n' i' l'|r' m'|]; cbn [obs_eqb]; intros H; try discriminate H.
  - repeat (apply andb_prop in H; destruct H as [H ?]).
    repeat match goal with E : Z.eqb _ _ = true |- _ => apply Z.eqb_eq in E end. apply nlist_eqb_eq in H. subst.
    split; [reflexivity|discriminate].
  - apply andb_prop in H. destruct H as [H1 H2]. apply Z.eqb_eq in H1. apply nlist_eqb_eq in H2. subst.
    split; [reflexivity|discriminate].
Qed.
Lemma forallb_obs {A} (f g : A -> obs) (l : list A) :
  forallb (fun c => obs_eqb (f c) (g c)) l = true -> forall c, In c l -> f c = g c /\ f c <> Bad.
Proof. intros H c Hc. rewrite forallb_forall in H. apply obs_eqb_eq, H, Hc. Qed.

Definition getv (e : env) (x : string) : Z := match lookup (vars e) x with Some z => z | None => -999 end.
Definition getp (e : env) (x : string) : Z := match lookup (ptrs e) x with Some (_, off) => off | None => -999 end.
Definition geta (e : env) (x : string) : list N := match lookup (arrs e) x with Some c => ns c | None => [] end.
Definition nths (l : list string) (i : nat) : string := nth i l "?".

(* ---- decoder: one iteration ------------------------------------------------ *)
Definition dec_mem : list N := [224; 225; 226; 227]%N.
Definition dec_domain : list (N * bool * N * (nat * nat)) :=
  flat_map (fun ch => flat_map (fun nd => map (fun po => (ch, fst nd, snd nd, po)) [(0, 0); (0, 1); (2, 2); (2, 3)]%nat)
    ((false, 0%N) :: map (fun d => (true, d)) (nrange 16))) (nrange 256).

Definition dec_body_c (c : N * bool * N * (nat * nat)) : obs :=
  let '(ch, nib, d, (posn, outlen)) := c in
  let P := nths from_hex_params in let L := nths from_hex_locals in
  let e := mkenv [(P 1%nat, Z.of_nat outlen); (P 3%nat, 5); (L 0%nat, Z.of_nat posn); (L 1%nat, Z.of_N (N.shiftl d 4));
                  (L 2%nat, if nib then 1 else 0); (L 3%nat, 99)]
                 [(P 0%nat, ("@out", 0)); (P 2%nat, ("@in", 0))]
                 [("@out", zs dec_mem); ("@in", [schar ch; 7])] in
  match exec 40 e from_hex_body with
  | ONormal e' | OContinue e' => Next (geta e' "@out") (getv e' (L 0%nat)) (getv e' (L 1%nat)) (getv e' (L 2%nat)) (getp e' (P 2%nat)) (getv e' (P 3%nat))
  | OReturn r e' => Ret r (geta e' "@out")
  | OStuck => Bad
  end.

Definition dec_body_m (c : N * bool * N * (nat * nat)) : obs :=
  let '(ch, nib, d, (posn, outlen)) := c in
  match from_hex_step outlen ch (dec_mem, posn, N.shiftl d 4, nib) with
  | Some (mem, posn', value, nib') => Next mem (Z.of_nat posn') (Z.of_N value) (if nib' then 1 else 0) 1 4
  | None => Ret (-1) dec_mem
  end.


(* ---- encoder: one iteration ------------------------------------------------ *)
Definition enc_mem : list N := [224; 225; 226; 227; 228; 229; 230; 231]%N.
Definition enc_domain : list (N * Z * nat) :=
  flat_map (fun ch => flat_map (fun up => map (fun posn => (ch, up, posn)) [0; 3]%nat) [0; 1; -5]) (nrange 256).

Definition enc_body_c (c : N * Z * nat) : obs :=
  let '(ch, up, posn) := c in
  let P := nths to_hex_params in let L := nths to_hex_locals in
  let e := mkenv [(P 1%nat, 100); (P 3%nat, 1); (P 4%nat, up)]
                 [(P 0%nat, ("@out", 0)); (P 2%nat, ("@in", 0))]
                 [("@out", zs enc_mem); ("@in", [Z.of_N ch; 7])] in
  match exec 40 e to_hex_prologue with
  | ONormal e0 =>
    match exec 40 (set_var e0 (L 3%nat) (Z.of_nat posn)) to_hex_body with
    | ONormal e' | OContinue e' => Next (geta e' "@out") (getv e' (L 3%nat)) 0 0 (getp e' (P 2%nat)) (getv e' (P 3%nat))
    | OReturn r e' => Ret r (geta e' "@out")
    | OStuck => Bad
    end
  | _ => Bad
  end.

Definition enc_body_m (c : N * Z * nat) : obs :=
  let '(ch, up, posn) := c in
  let '(mem, posn') := to_hex_loop (hex_chars (negb (Z.eqb up 0))) [ch] enc_mem posn in
  Next mem (Z.of_nat posn') 0 0 1 0.


(* ---- whole functions on samples --------------------------------------------- *)
Definition guard (n : nat) : list N := repeat 238%N (n + 2).     (* outlen cells and two more behind them *)

Definition run_from_hex (outlen : nat) (s : list N) : obs :=
  let P := nths from_hex_params in
  let e := mkenv [(P 1%nat, Z.of_nat outlen); (P 3%nat, Z.of_nat (List.length s))]
                 [(P 0%nat, ("@out", 0)); (P 2%nat, ("@in", 0))]
                 [("@out", zs (guard outlen)); ("@in", map schar s)] in
  match exec 400 e from_hex_fn with
  | OReturn r e' => Ret r (geta e' "@out")
  | _ => Bad
  end.
Definition model_from_hex (outlen : nat) (s : list N) : obs :=
  let '(r, mem) := from_hex (guard outlen) outlen s in Ret r mem.

Definition dec_strings : list (list N) :=
  [ []; [48]; [48; 48]; [48; 97; 49; 66]; [32; 48; 97; 9; 49; 66; 10]; [48; 103]; [122; 122]; [49; 50; 51];
    [102; 70; 13; 12; 11; 101; 69]; [48; 48; 0; 49; 49]; [255; 48; 48]; [48; 48; 128]; [32; 32; 32];
    [49; 32; 50; 32; 51; 32; 52; 32; 53; 32; 54]; [65; 66; 67; 68; 69; 70; 97; 98; 99; 100; 101; 102; 48; 49; 50; 51; 52; 53; 54; 55; 56; 57];
    [47; 48]; [58; 48]; [64; 65]; [71; 65]; [96; 97]; [103; 97] ]%N.
Definition dec_samples : list (nat * list N) :=
  flat_map (fun s => map (fun o => (o, s)) [0; 1; 2; 3; 11]%nat) dec_strings.


Definition run_to_hex (outlen : nat) (b : list N) (up : Z) : obs :=
  let P := nths to_hex_params in
  let e := mkenv [(P 1%nat, Z.of_nat outlen); (P 3%nat, Z.of_nat (List.length b)); (P 4%nat, up)]
                 [(P 0%nat, ("@out", 0)); (P 2%nat, ("@in", 0))]
                 [("@out", zs (guard outlen)); ("@in", zs b)] in
  match exec 400 e to_hex_fn with
  | OReturn r e' => Ret r (geta e' "@out")
  | _ => Bad
  end.
Definition model_to_hex (outlen : nat) (b : list N) (up : Z) : obs :=
  let '(r, mem) := to_hex (guard outlen) outlen b (negb (Z.eqb up 0)) in Ret r mem.

Definition enc_inputs : list (list N) := [ []; [0]; [255]; [1; 35; 69; 103; 137; 171; 205; 239]; [16; 15; 240; 160; 10] ]%N.
Definition enc_samples : list (nat * list N * Z) :=
  flat_map (fun b => flat_map (fun o => map (fun up => (o, b, up)) [0; 1; 7])
    [0; 1; 2 * List.length b - 1; 2 * List.length b; 2 * List.length b + 1; 2 * List.length b + 2; 30]%nat) enc_inputs.


