(* Coverage of the regenerated C10 / C14 obligation tables (Gen/MWord.v, Gen/MW2_*.v, Gen/TagObl.v) against the
   hand-written requirement lists of Obl/MWordSpec.v: every required (kind, value algebra, share count, MAX_SHARES)
   has an obligation in its table.  A function the translator no longer finds, a dropped size / offset or a
   descriptor with another kind or share count makes these fail; that the obligation's C function is the one named
   by (kind, shares) is part of Obl/FnObl.fn_obl_ok (desc_wf).  Cheap: only descriptors are compared. *)
From Coq Require Import List Bool.
From AsconV Require Import Sym.Wexpr Sym.Pipe Obl.FnObl Obl.FnOblParts Gen.MWord Gen.MW2_index Gen.TagObl.
Import ListNotations.

(* tools/kern_mword.py: 64-bit C toolkit, x86-64 assembly toolkit, masked keys and states over the 64-bit C toolkit *)
Lemma mword_c64_covers : covers mword_c64_obls (req_toolkit B64 4 false) = true. Proof. vm_compute. reflexivity. Qed.
Lemma mword_x86_covers : covers mword_x86_obls (req_toolkit B64 4 false) = true. Proof. vm_compute. reflexivity. Qed.
Lemma mkey_covers : covers mkey_obls (req_keys B64) = true. Proof. vm_compute. reflexivity. Qed.
Lemma mstate_covers : covers mstate_obls (req_states B64 4) = true. Proof. vm_compute. reflexivity. Qed.
(* tools/kern_mword2.py *)
Lemma mw2_c32_toolkit_covers : covers (concat mw2_c32_toolkit_parts) (req_toolkit B32 4 true) = true. Proof. vm_compute. reflexivity. Qed.
Lemma mw2_c32_keys_states_covers : covers (concat mw2_c32_keys_states_parts) (req_keys B32 ++ req_states B32 4) = true. Proof. vm_compute. reflexivity. Qed.
Lemma mw2_c64_ops_covers : covers (concat mw2_c64_ops_parts) (req_ops B64 4) = true. Proof. vm_compute. reflexivity. Qed.
Lemma mw2_c32_ops_covers : covers (concat mw2_c32_ops_parts) (req_ops B32 4) = true. Proof. vm_compute. reflexivity. Qed.
Lemma mw2_x86_ops_covers : covers (concat mw2_x86_ops_parts) (req_ops B64 4) = true. Proof. vm_compute. reflexivity. Qed.
Lemma mw2_x1_covers : covers (concat mw2_x1_parts) (req_x1 B32 false 4 ++ req_x1 B64 false 4) = true. Proof. vm_compute. reflexivity. Qed.
(* tools/kern_tag.py *)
Lemma nonce_covers : covers nonce_obls req_nonce = true. Proof. vm_compute. reflexivity. Qed.

(* the x86-64 tables are the assembly front end's, the others the LLVM front end's *)
Definition all_front (f : frontend) (tab : list fn_obl) : bool :=
  forallb (fun o => match fd_front (fo_desc o), f with FLlvm, FLlvm | FX86, FX86 => true | _, _ => false end) tab.
Lemma fronts_ok : all_front FLlvm (mword_c64_obls ++ mkey_obls ++ mstate_obls ++ concat mw2_c32_toolkit_parts ++ concat mw2_c32_keys_states_parts ++
                                   concat mw2_c64_ops_parts ++ concat mw2_c32_ops_parts ++ concat mw2_x1_parts ++ nonce_obls) &&
                  all_front FX86 (mword_x86_obls ++ concat mw2_x86_ops_parts) = true.
Proof. vm_compute. reflexivity. Qed.

(* sizes of the requirement lists (for the reader; the tables have exactly as many obligations) *)
Example req_sizes :
  List.length (req_toolkit B64 4 false) = 24 /\ List.length (req_toolkit B32 4 true) = 27 /\ List.length (req_keys B64) = 18 /\
  List.length (req_states B64 4) = 18 /\ List.length (req_ops B64 4) = 87 /\ List.length (req_x1 B64 false 4) = 6.
Proof. vm_compute. repeat split. Qed.
