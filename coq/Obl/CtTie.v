(* C11: a (T) tie between layer 2 (the hand-written leakage model Model/Leak.v) and layer 1 (the
   traces the symbolic executor extracts from the C as compiled by clang, Gen/CtKernels.v).

   For every keyed mode-level function and every public shape in the regenerated table, the
   sequence of permutation calls (their first-round arguments, in order) that the executor saw in
   the C equals the sequence of EPerm events that the model's trace function tr_R predicts from
   the same public lengths.  The number, order and round counts of the permutation calls are the
   dominant part of the control flow of a sponge mode (each loop iteration, each conditional
   finalisation step makes one), so a model whose loop structure or branch sites drifted from the
   C would disagree here on some shape. *)
From Coq Require Import List NArith String Bool Arith.
From AsconV Require Import Sym.CtTable Gen.CtKernels Model.Leak.
Import ListNotations.
Local Open Scope string_scope.
Local Open Scope list_scope.

Definition perms_of (t : list ev) : list N :=
  flat_map (fun e => match e with EPerm r => [N.of_nat r] | _ => [] end) t.

(* predicted trace for a function name and a control tuple; None = no prediction for this function *)
Definition nn := N.to_nat.
Definition pubx_of (c m : N) : nat * bool := (nn c, negb (m =? 0)%N).

Definition aead_pred (v : aead_variant) (suffix : string) (ctl : list N) : option (list ev) :=
  match ctl with
  | [a; m] =>
    if String.eqb suffix "_aead_encrypt" then Some (tr_encrypt v (v_klen v) 16 (nn a) (nn m))
    else if String.eqb suffix "_aead_decrypt" then Some (tr_decrypt v (v_klen v) 16 (nn a) (nn m + 16))
    else if String.eqb suffix "_siv_encrypt" then Some (tr_siv_encrypt v (v_klen v) 16 (nn a) (nn m))
    else if String.eqb suffix "_siv_decrypt" then Some (tr_siv_decrypt v (v_klen v) 16 (nn a) (nn m + 16))
    else if String.eqb suffix "_aead_encrypt_block" then Some (tr_duplex (v_pb v) (v_rate v) (nn a) (nn m))
    else if String.eqb suffix "_aead_decrypt_block" then Some (tr_duplex (v_pb v) (v_rate v) (nn a) (nn m))
    else None
  | [a] =>
    if String.eqb suffix "_aead_start" then Some (tr_inc_start v (v_klen v) 16 (nn a))
    else if String.eqb suffix "_aead_encrypt_finalize" then Some (tr_finalize v (nn a) (v_klen v))
    else if String.eqb suffix "_aead_decrypt_finalize" then Some (tr_finalize v (nn a) (v_klen v) ++ tr_check_tag 0 16)
    else None
  | _ => None
  end.

Definition isap_pred (iv : isap_variant) (suffix : string) (ctl : list N) : option (list ev) :=
  match ctl with
  | [a; m] =>
    if String.eqb suffix "_isap_aead_encrypt" then Some (tr_isap_encrypt iv 16 (nn a) (nn m))
    else if String.eqb suffix "_isap_aead_decrypt" then Some (tr_isap_decrypt iv 16 (nn a) (nn m + 16))
    else None
  | _ => None
  end.

Definition alg_table : list (string * aead_variant * isap_variant) :=
  [("ascon128", a128, isap128); ("ascon128a", a128a, isap128a); ("ascon80pq", a80pq, isap80pq)].

Definition strip (pre s : string) : option string :=
  if String.prefix pre s then Some (String.substring (String.length pre) (String.length s - String.length pre) s) else None.

Fixpoint alg_pred (tab : list (string * aead_variant * isap_variant)) (fn : string) (ctl : list N) : option (list ev) :=
  match tab with
  | [] => None
  | (nm, v, iv) :: rest =>
    match strip nm fn with
    | Some suffix =>
      (* "ascon128" is a prefix of "ascon128a...": only accept a suffix that starts with '_' *)
      if String.prefix "_" suffix then
        match aead_pred v suffix ctl with
        | Some t => Some t
        | None => isap_pred iv suffix ctl
        end
      else alg_pred rest fn ctl
    | None => alg_pred rest fn ctl
    end
  end.

Definition sys1 : list (nat * bool) := [(32, true)].

Definition other_pred (fn : string) (ctl : list N) : option (list ev) :=
  match ctl with
  | [a] =>
    if String.eqb fn "ascon_mac" then Some (tr_prf_oneshot 16 16 (nn a) 16)
    else if String.eqb fn "ascon_mac_verify" then Some (tr_mac_verify 16 16 (nn a))
    else None
  | [a; b] =>
    if String.eqb fn "ascon_prf" then Some (tr_prf_oneshot 16 0 (nn b) (nn a))
    else if String.eqb fn "ascon_prf_fixed" then Some (tr_prf_oneshot 16 a (nn b) (nn a))
    else if String.eqb fn "ascon_prf_short" then Some (tr_prf_short 16 (nn b) (nn a))
    else if String.eqb fn "ascon_hmac" then Some (tr_hmac_run vxof (nn a) [nn b])
    else if String.eqb fn "ascon_hmaca" then Some (tr_hmac_run vxofa (nn a) [nn b])
    else if String.eqb fn "ascon_random_reseed" then Some (tr_reseed (pubx_of a b) 32)
    else None
  | [a; b; c] =>
    if String.eqb fn "ascon_prf_absorb" then Some (tr_xof_absorb vprf (pubx_of a b) (nn c))
    else if String.eqb fn "ascon_prf_squeeze" then Some (tr_xof_squeeze vprf (pubx_of a b) (nn c))
    else if String.eqb fn "ascon_random_feed" then Some (tr_prng_feed (pubx_of a b) (nn c))
    else None
  | [a; b; c; d] =>
    if String.eqb fn "ascon_hkdf" then Some (tr_hkdf vxof (nn b) (nn c) (nn d) (nn a))
    else if String.eqb fn "ascon_hkdfa" then Some (tr_hkdf vxofa (nn b) (nn c) (nn d) (nn a))
    else if String.eqb fn "ascon_hkdf_expand" then Some (tr_hkdf_expand vxof (nn a, nn b, 32, 32)%nat (nn c) (nn d))
    else if String.eqb fn "ascon_hkdfa_expand" then Some (tr_hkdf_expand vxofa (nn a, nn b, 32, 32)%nat (nn c) (nn d))
    else if String.eqb fn "ascon_pbkdf2" then Some (tr_pbkdf2 (nn b) (nn c) (nn d) (nn a))
    else if String.eqb fn "ascon_random_fetch" then Some (tr_prng_fetch (pubx_of a b, nn c) (nn d) sys1)
    else None
  | [] =>
    if String.eqb fn "ascon_random_init" then Some (tr_prng_init 32) else None
  | _ => None
  end.

Definition predict (fn : string) (ctl : list N) : option (list ev) :=
  match alg_pred alg_table fn ctl with
  | Some t => Some t
  | None => other_pred fn ctl
  end.

(* an entry of the "mode" group agrees with the model on every shape; entries without a prediction are skipped
   (they are listed by [tie_unpredicted]) *)
Definition is_mode (e : ct_entry) : bool := String.eqb (ce_group e) "mode".
Definition run_tied (fn : string) (r : ct_run) : bool :=
  match predict fn (r_ctl r) with
  | Some t => nlist_eqb (perms_of t) (r_perms r)
  | None => true
  end.
Definition entry_tied (e : ct_entry) : bool := negb (is_mode e) || forallb (run_tied (ce_fn e)) (ce_runs e).
Definition has_pred (e : ct_entry) : bool :=
  match ce_runs e with r :: _ => match predict (ce_fn e) (r_ctl r) with Some _ => true | None => false end | [] => false end.

Definition tie_ok : bool := forallb entry_tied ct_entries.
Definition tie_predicted : list (string * string) := map (fun e => (ce_fn e, ce_cfg e)) (filter (fun e => is_mode e && has_pred e) ct_entries).
Definition tie_unpredicted : list string := nodup string_dec (map ce_fn (filter (fun e => is_mode e && negb (has_pred e)) ct_entries)).
Definition tie_runs : nat :=
  fold_right (fun e n => (if is_mode e && has_pred e then List.length (ce_runs e) else 0) + n)%nat 0%nat ct_entries.

(* the disagreements, for the failure report (evaluated by lib/p_c11.py only when tie_ok is false) *)
Definition bad_row := (string * string * list N * list N * list N)%type.
Definition run_bad (fn cfg : string) (r : ct_run) : list bad_row :=
  match predict fn (r_ctl r) with
  | Some t => if nlist_eqb (perms_of t) (r_perms r) then [] else [(fn, cfg, r_ctl r, perms_of t, r_perms r)]
  | None => []
  end.
Definition entry_bad (e : ct_entry) : list bad_row :=
  if is_mode e then flat_map (run_bad (ce_fn e) (ce_cfg e)) (ce_runs e) else [].
Definition tie_bad (tab : list ct_entry) : list bad_row := flat_map entry_bad tab.

(* stated in expanded form (syntactically the statement of Props.C11_model_matches_C_perm_calls) *)
Lemma tie_checked :
  forallb (fun e => negb (String.eqb (ce_group e) "mode") ||
                    forallb (fun r => match predict (ce_fn e) (r_ctl r) with
                                      | Some t => nlist_eqb (perms_of t) (r_perms r)
                                      | None => true end) (ce_runs e)) ct_entries = true.
Proof. vm_compute. reflexivity. Qed.
