(* C09, acquire/release clause: the check of back end generic (see Obl/SkelObl.v) over the table regenerated from
   /repo's current source on this run. *)
From Coq Require Import List Bool String.
From AsconV Require Import Model.Skel Obl.SkelObl Gen.Skeleton_generic.

Lemma checked_generic : all_checked Skeleton_generic.configs = true.
Proof. vm_compute. reflexivity. Qed.
