(* C18: the shape of the ABI / frame facts that tools/abi_x86.py regenerates from /repo's x86-64 assembly files
   on every run (Gen/AbiX86.v), and the boolean checks the property file evaluates over that table.

   One row = one complete, uncut symbolic execution of one global function of one .S file (under one
   preprocessor profile) from its entry to the `ret` that consumes the entry return address, with the data
   (memory regions, registers, random words) symbolic and control flow, addresses, shift counts concrete.
   The machine semantics - including "an access outside a declared region or outside the own frame is
   stuck", "a pop of an overwritten return address is stuck" - is the Python executor tools/asm_x86.py (the
   trusted ISA model); the row records what that run observed.  Coq re-checks the table: every flag set,
   every recorded access extent inside its region, the frame no larger than the stated bound, every global
   function present, every start round 0..12 of the permutation entry points present. *)
From Coq Require Import List Arith NArith Bool String. Import ListNotations.
Local Open Scope nat_scope.

(* the extent of the accesses (loads and stores) a run made to one declared region *)
Record region_use := {
  ru_name : string;
  ru_size : nat;        (* declared size in bytes *)
  ru_reads : nat;       (* number of load instructions that hit it *)
  ru_writes : nat;
  ru_lo : nat;          (* lowest byte offset touched (= ru_size when untouched) *)
  ru_hi : nat           (* one past the highest byte offset touched (0 when untouched) *)
}.

Record abi_entry := {
  ae_file : string;            (* path below /repo *)
  ae_profile : string;         (* preprocessor profile, e.g. "max4" = -DASCON_MASKED_MAX_SHARES=4 *)
  ae_fn : string;              (* global symbol *)
  ae_kind : nat;               (* 0 = permutation entry point (case = first_round), 1 = other function (case = size / offset argument, 0 if none) *)
  ae_case : nat;
  ae_variant : string;         (* "" or e.g. "alias" (dest == src) *)
  ae_finished : bool;          (* the run reached the final ret without getting stuck *)
  ae_callee_saved_ok : bool;   (* rbx rbp r12 r13 r14 r15 hold, at ret, the very value object they held at entry *)
  ae_rsp_ok : bool;            (* rsp after ret = entry rsp + 8 *)
  ae_ret_ok : bool;            (* the slot popped by ret still held the entry return address *)
  ae_in_region : bool;         (* no access left the declared regions / the own frame (the executor would have been stuck) *)
  ae_frame_bytes : nat;        (* entry rsp - lowest rsp reached *)
  ae_stack_lo : nat;           (* deepest stack byte accessed, as distance below the entry rsp (0 = none) *)
  ae_stack_above : nat;        (* number of bytes accessed at or above the return address slot by loads/stores (must be 0) *)
  ae_steps : N;                (* instructions executed *)
  ae_calls : nat;              (* calls to the random source *)
  ae_calls_aligned : bool;     (* rsp was a multiple of 16 at every call (recorded, not part of abi_entry_ok: see the claim) *)
  ae_regions : list region_use
}.

Definition frame_bound : nat := 512.

Definition region_ok (r : region_use) : bool :=
  (ru_hi r <=? ru_size r) && ((ru_reads r + ru_writes r =? 0) || (ru_lo r <? ru_hi r)).

Definition abi_entry_ok (e : abi_entry) : bool :=
  ae_finished e && ae_callee_saved_ok e && ae_rsp_ok e && ae_ret_ok e && ae_in_region e &&
  (ae_frame_bytes e <=? frame_bound) && (ae_stack_lo e <=? ae_frame_bytes e) && (ae_stack_above e =? 0) &&
  (0 <? ae_steps e)%N && forallb region_ok (ae_regions e).

(* coverage of the table *)
Definition same_fn (g : string * string * string) (e : abi_entry) : bool :=
  let '(f, p, n) := g in String.eqb f (ae_file e) && String.eqb p (ae_profile e) && String.eqb n (ae_fn e).

Fixpoint nat_list_eqb (a b : list nat) : bool :=
  match a, b with
  | [], [] => true
  | x :: a', y :: b' => (x =? y) && nat_list_eqb a' b'
  | _, _ => false
  end.

(* every global function of every file/profile has at least one row *)
Definition globals_covered (globals : list (string * string * string)) (tab : list abi_entry) : bool :=
  forallb (fun g => existsb (same_fn g) tab) globals.

(* a permutation entry point has exactly the rows first_round = 0..12, in order *)
Definition rounds_covered (perms : list (string * string * string)) (tab : list abi_entry) : bool :=
  forallb (fun g => nat_list_eqb (map ae_case (filter (fun e => same_fn g e && (ae_kind e =? 0)) tab)) (seq 0 13)) perms.

Lemma abi_entry_ok_spec e : abi_entry_ok e = true ->
  ae_finished e = true /\ ae_callee_saved_ok e = true /\ ae_rsp_ok e = true /\ ae_ret_ok e = true /\ ae_in_region e = true /\
  ae_frame_bytes e <= frame_bound /\ ae_stack_above e = 0 /\
  forall r, In r (ae_regions e) -> ru_hi r <= ru_size r.
Proof.
  unfold abi_entry_ok. intro H.
  repeat (apply andb_true_iff in H; let H' := fresh "H" in destruct H as [H H']).
  repeat split; try assumption.
  - now apply Nat.leb_le.
  - now apply Nat.eqb_eq.
  - intros r Hr. rewrite forallb_forall in H0. specialize (H0 r Hr). unfold region_ok in H0.
    apply andb_true_iff in H0. destruct H0 as [Hh _]. now apply Nat.leb_le.
Qed.
