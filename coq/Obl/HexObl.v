(* C20 (T): the obligations over Gen/HexAst.v; definitions and the description of
   the enumerated domains are in Obl/HexOblDefs.v.  Re-checked whenever the
   translation of /repo's ascon-hex.c changes. *)
From AsconV Require Import Sym.MiniC Gen.HexAst Model.Hexm Obl.HexOblDefs.
From Coq Require Import ZArith List String.
Import ListNotations.

Lemma dec_body_agrees : forall c, In c dec_domain -> dec_body_c c = dec_body_m c /\ dec_body_c c <> Bad.
Proof. apply forallb_obs. vm_compute. reflexivity. Qed.

Lemma enc_body_agrees : forall c, In c enc_domain -> enc_body_c c = enc_body_m c /\ enc_body_c c <> Bad.
Proof. apply forallb_obs. vm_compute. reflexivity. Qed.

Lemma dec_fn_agrees : forall c, In c dec_samples ->
  run_from_hex (fst c) (snd c) = model_from_hex (fst c) (snd c) /\ run_from_hex (fst c) (snd c) <> Bad.
Proof. apply (forallb_obs (fun c => run_from_hex (fst c) (snd c)) (fun c => model_from_hex (fst c) (snd c))). vm_compute. reflexivity. Qed.

Lemma enc_fn_agrees : forall c, In c enc_samples ->
  run_to_hex (fst (fst c)) (snd (fst c)) (snd c) = model_to_hex (fst (fst c)) (snd (fst c)) (snd c) /\
  run_to_hex (fst (fst c)) (snd (fst c)) (snd c) <> Bad.
Proof.
  apply (forallb_obs (fun c => run_to_hex (fst (fst c)) (snd (fst c)) (snd c)) (fun c => model_to_hex (fst (fst c)) (snd (fst c)) (snd c))).
  vm_compute. reflexivity.
Qed.

Lemma domain_sizes : List.length dec_domain = 17408%nat /\ List.length enc_domain = 1536%nat /\
                     List.length dec_samples = 105%nat /\ List.length enc_samples = 105%nat.
Proof. vm_compute. repeat split; reflexivity. Qed.
