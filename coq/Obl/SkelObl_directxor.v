(* C09, acquire/release clause: the check of back end directxor (see Obl/SkelObl.v) over the table regenerated from
   /repo's current source on this run. *)
From Coq Require Import List Bool String.
From AsconV Require Import Model.Skel Obl.SkelObl Gen.Skeleton_directxor.

Lemma checked_directxor : all_checked Skeleton_directxor.configs = true.
Proof. vm_compute. reflexivity. Qed.
