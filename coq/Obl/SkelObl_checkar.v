(* C09, acquire/release clause: the check of back end checkar (see Obl/SkelObl.v) over the table regenerated from
   /repo's current source on this run. *)
From Coq Require Import List Bool String.
From AsconV Require Import Model.Skel Obl.SkelObl Gen.Skeleton_checkar.

Lemma checked_checkar : all_checked Skeleton_checkar.configs = true.
Proof. vm_compute. reflexivity. Qed.
