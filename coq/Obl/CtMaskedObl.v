(* C11 layer 1, masked part: what the regenerated leakage table Gen/CtMasked.v (tools/kern_ct_masked.py) must contain.
   As in Obl/CtObl.v the lists below are written by hand - they are NOT produced by the run - and here EVERY entry
   is required with its exact list of public control tuples: a masked AEAD / masked key function that gets stuck for
   one (adlen, mlen) (a branch, address, shift count or length computed from a key share, a plaintext byte or a word
   of the random source), is renamed, or is dropped from the generator makes `ctm_table_ok` false.

   Configurations: <back end>_<KEY><DATA><MAX> with back end c64 / c32 (masked C toolkit linked in) or x86 (the
   default x86-64 selection: assembly word toolkit and assembly permutations external under contracts), share triples
   4/2/4 (the default), 4/1/4, 3/3/3, 2/2/2; and <back end>_max<k> for the kernels with 8*k-byte masked words. *)
From Coq Require Import List NArith String Bool Arith.
From AsconV Require Import Sym.CtTable Gen.CtMasked.
Import ListNotations.
Local Open Scope string_scope.
Local Open Scope list_scope.
Notation "a +s+ b" := (String.append a b) (at level 60, right associativity).

Definition digit (n : nat) : string := match n with 1 => "1" | 2 => "2" | 3 => "3" | _ => "4" end.

(* ---- public shapes: adlen, mlen over 0, 1, r-1, r, r+1, 2r+3 (adlen-major), as the unmasked AEAD rows *)
Definition Lr (r : nat) : list N := map N.of_nat [0; 1; r - 1; r; r + 1; 2 * r + 3]%nat.
Definition aead_shapes (r : nat) : list (list N) := flat_map (fun a => map (fun m => [a; m]) (Lr r)) (Lr r).

(* ---- share configurations *)
Definition triples : list (nat * nat * nat) := [(4, 2, 4); (4, 1, 4); (3, 3, 3); (2, 2, 2)]%nat.
Definition backends : list string := ["c64"; "x86"; "c32"].
Definition cfg_name (be : string) (t : nat * nat * nat) : string :=
  let '(k, d, m) := t in be +s+ "_" +s+ digit k +s+ digit d +s+ digit m.

(* ---- masked AEAD: function, rate, first round of the intermediate permutation *)
Definition aead_algs : list (string * nat * nat) := [("ascon128", 8, 6); ("ascon128a", 16, 4); ("ascon80pq", 8, 6)]%nat.

(* the permutation calls of one masked AEAD call, in order, coded 100 * shares + first_round (shares = 1: the
   unmasked ascon_permute of the DATA_SHARES = 1 configuration): the 12-round initialisation on KEY shares;
   adlen / rate + 1 calls on DATA shares when there is associated data; mlen / rate calls for the payload; the
   12-round finalisation on KEY shares *)
Definition masked_perms (rate fr k d : nat) (adlen mlen : N) : list N :=
  let kc := N.of_nat (100 * k) in
  let dc := N.of_nat (100 * d + fr) in
  let r := N.of_nat rate in
  [kc] ++ (if N.eqb adlen 0 then [] else repeat dc (N.to_nat (adlen / r) + 1)) ++ repeat dc (N.to_nat (mlen / r)) ++ [kc].

Record aead_req := { aq_fn : string; aq_cfg : string; aq_rate : nat; aq_fr : nat; aq_k : nat; aq_d : nat }.

Definition ctm_aead_required : list aead_req :=
  flat_map (fun be => flat_map (fun t => flat_map (fun a =>
    let '(alg, rate, fr) := a in let '(k, d, m) := t in
    [ {| aq_fn := alg +s+ "_masked_aead_encrypt"; aq_cfg := cfg_name be t; aq_rate := rate; aq_fr := fr; aq_k := k; aq_d := d |};
      {| aq_fn := alg +s+ "_masked_aead_decrypt"; aq_cfg := cfg_name be t; aq_rate := rate; aq_fr := fr; aq_k := k; aq_d := d |} ])
    aead_algs) triples) backends.

Definition run_perms_ok (q : aead_req) (r : ct_run) : bool :=
  match r_ctl r with
  | [a; m] => nlist_eqb (r_perms r) (masked_perms (aq_rate q) (aq_fr q) (aq_k q) (aq_d q) a m)
  | _ => false
  end.

(* present, every run completed with equal trace hashes, exactly the required shapes in order, and in every run the
   permutation calls the executor saw are the predicted ones *)
Definition aead_req_met (tab : list ct_entry) (q : aead_req) : bool :=
  existsb (fun e => if String.eqb (ce_fn e) (aq_fn q) then if String.eqb (ce_cfg e) (aq_cfg q) then
                      if ct_entry_ok e then nlists_eqb (map r_ctl (ce_runs e)) (aead_shapes (aq_rate q)) && forallb (run_perms_ok q) (ce_runs e)
                      else false else false else false) tab.

(* ---- masked keys *)
Definition key_fns : list string :=
  ["ascon_masked_key_128_init"; "ascon_masked_key_128_randomize"; "ascon_masked_key_128_extract"; "ascon_masked_key_128_free";
   "ascon_masked_key_160_init"; "ascon_masked_key_160_randomize"; "ascon_masked_key_160_extract"; "ascon_masked_key_160_free"].
Definition ctm_key_required : list ct_req :=
  flat_map (fun be => flat_map (fun t => map (fun fn => (fn, cfg_name be t, [[]])) key_fns) triples) backends.

(* ---- masked kernels with 16- and 24-byte masked words *)
Definition kbackends : list string := ["c64"; "c32"; "x86_64_asm"].
Definition kcfg (be : string) (maxs : nat) : string := be +s+ "_max" +s+ digit maxs.
Definition rounds13 : list (list N) := singles (nrange 0 13).
Definition ctm_perm_required : list ct_req :=
  flat_map (fun be => [("ascon_x2_permute", kcfg be 2, rounds13); ("ascon_x2_permute", kcfg be 3, rounds13); ("ascon_x3_permute", kcfg be 3, rounds13)]) kbackends.

Definition mw (n : nat) (s : string) : string := "ascon_masked_word_x" +s+ digit n +s+ "_" +s+ s.
Definition masked_word_reqs (cfg : string) (maxs : nat) : list ct_req :=
  flat_map (fun n =>
    [(mw n "zero", cfg, [[]]); (mw n "load", cfg, [[]]); (mw n "load_32", cfg, [[]]); (mw n "store", cfg, [[]]);
     (mw n "randomize", cfg, [[]]); (mw n "xor", cfg, [[]]);
     (mw n "load_partial", cfg, singles (nrange 0 8)); (mw n "store_partial", cfg, singles (nrange 0 8));
     (mw n "replace", cfg, singles (nrange 1 7))] ++
    map (fun m => (mw n ("from_x" +s+ digit m), cfg, [[]])) (filter (fun m => negb (Nat.eqb m n)) (seq 2 (maxs - 1)))) (seq 2 (maxs - 1))
  ++ [("ascon_masked_word_pad", cfg, singles (nrange 0 8)); ("ascon_masked_word_separator", cfg, [[]])].
Definition ctm_word_required : list ct_req :=
  flat_map (fun be => masked_word_reqs (kcfg be 2) 2 ++ masked_word_reqs (kcfg be 3) 3) kbackends.

Definition ctm_required : list ct_req := ctm_key_required ++ ctm_perm_required ++ ctm_word_required.

Definition ctm_table_ok : bool :=
  forallb ct_entry_ok ctm_entries && forallb (req_met ctm_entries) ctm_required && forallb (aead_req_met ctm_entries) ctm_aead_required.

Lemma ctm_table_checked :
  forallb ct_entry_ok ctm_entries && forallb (req_met ctm_entries) ctm_required && forallb (aead_req_met ctm_entries) ctm_aead_required = true.
Proof. vm_compute. reflexivity. Qed.

Lemma aead_req_met_sound tab q : aead_req_met tab q = true ->
  exists e, In e tab /\ ce_fn e = aq_fn q /\ ce_cfg e = aq_cfg q /\ ct_entry_ok e = true /\
            nlists_eqb (map r_ctl (ce_runs e)) (aead_shapes (aq_rate q)) = true /\ forallb (run_perms_ok q) (ce_runs e) = true.
Proof.
  unfold aead_req_met. intro H. apply existsb_exists in H. destruct H as [e [I H]].
  destruct (String.eqb (ce_fn e) (aq_fn q)) eqn:H1; [|discriminate H].
  destruct (String.eqb (ce_cfg e) (aq_cfg q)) eqn:H2; [|discriminate H].
  destruct (ct_entry_ok e) eqn:H3; [|discriminate H].
  apply andb_true_iff in H. destruct H as [H4 H5].
  exists e. repeat split; try assumption; now apply String.eqb_eq.
Qed.

(* numbers for the evidence *)
Definition ctm_count_runs : nat := fold_right (fun e n => (List.length (ce_runs e) + n)%nat) 0%nat ctm_entries.
