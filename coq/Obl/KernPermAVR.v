(* C18 sub-check 2 for the three AVR5 files: obligations for the checked-in AVR assembly permutations.
   Gen/Kern_avr5.v, Gen/Masked_avr5_x2.v, Gen/Masked_avr5_x2m3.v, Gen/Masked_avr5_x3.v are regenerated from /repo on
   every run by tools/kern_avr.py through the front end tools/asm_avr.py (symbolic execution of the preprocessed .S
   text, cut at the head of the round loop); every segment is re-checked here for all inputs.

   The AVR files are used with first_round 0..11 only - the documented range ("between 0 and 11" in
   ascon/permutation.h and masking/ascon-masked-state.h).  Their round loop is a do-while loop: the round constant is
   compared with 0x3C after a round, so first_round = 12 would run 256 rounds, not none.  The obligations below
   therefore quantify over k < 12 (the other back ends are also proved for k = 12, where they do nothing).
   Trusted: the AVR lowering table of tools/asm_avr.py. *)
From Coq Require Import List Arith Bool Lia. Import ListNotations.
From AsconV Require Import Sym.Wexpr Sym.Pipe Sym.Kernel Sym.KernelP Sym.VKernel Obl.KernPerm Obl.KernMaskedDefs.

(* ---- plain permutation: as Obl.KernPerm.backend_ok, for first_round 0..11 *)
Definition backend_ok12 (L : klayout) (segs : list seg) (chains : list (nat * list nat)) : bool :=
  forallb (check_seg L) segs && forallb (chain_ok L segs) chains && nat_list_eqb (map fst chains) (seq 0 12).

Theorem backend_sound12 L segs chains : backend_ok12 L segs chains = true ->
  forall k, k < 12 -> exists idx, In (k, idx) chains /\
  forall m oo, widths_of m = mem_widths -> widths_of oo = entry_others (chain_of segs idx) ->
  run_chain (chain_of segs idx) (m ++ oo) = pexec BoolAlg (chain_spec L (seq k (12 - k))) m.
Proof.
  unfold backend_ok12. intros H k Hk. apply andb_true_iff in H. destruct H as [H HK].
  apply andb_true_iff in H. destruct H as [HS HC]. apply nat_list_eqb_eq in HK.
  assert (I : In k (map fst chains)) by (rewrite HK; apply in_seq; lia).
  apply in_map_iff in I. destruct I as [[k' idx] [E I]]. cbn in E. subst k'.
  exists idx. split; [exact I|]. intros m oo Wm Wo.
  rewrite forallb_forall in HC. specialize (HC (k, idx) I). unfold chain_ok in HC. cbn [fst snd] in HC.
  apply andb_true_iff in HC. destruct HC as [HC H3]. apply andb_true_iff in HC. destruct HC as [H1 H2].
  apply nat_list_eqb_eq in H3. rewrite <- H3. apply chain_sound; [|exact H2|exact Wm|exact Wo].
  unfold chain_of. rewrite forallb_forall. intros s Hs. apply in_map_iff in Hs. destruct Hs as [i [Ei Ii]]. subst s.
  rewrite forallb_forall in H1. specialize (H1 i Ii). apply Nat.ltb_lt in H1.
  rewrite forallb_forall in HS. apply HS. now apply nth_In.
Qed.

(* ---- masked permutations: as Obl.KernMaskedDefs.vbackend_ok, for first_round 0..11 *)
Definition vbackend_ok12 (ifs : list viface) (ein eout : nat) (segs : list vseg) (chains : list (nat * list nat)) : bool :=
  forallb (check_vseg ifs) segs && forallb (vchain_ok ein eout segs) chains && nat_list_eqb (map fst chains) (seq 0 12).

Theorem vbackend_sound12 ifs ein eout segs chains : vbackend_ok12 ifs ein eout segs chains = true ->
  forall k, k < 12 -> exists idx, In (k, idx) chains /\
  forall v, widths_of v = vi_w (vif ifs ein) ->
  run BoolAlg (vrun_chain (vchain_of segs idx) v) (vi_val (vif ifs eout)) =
  pexec BoolAlg (rounds_pipe KL64 (seq k (12 - k))) (run BoolAlg v (vi_val (vif ifs ein))).
Proof.
  unfold vbackend_ok12. intros H k Hk. apply andb_true_iff in H. destruct H as [H HK].
  apply andb_true_iff in H. destruct H as [HS HC]. apply nat_list_eqb_eq in HK.
  assert (I : In k (map fst chains)) by (rewrite HK; apply in_seq; lia).
  apply in_map_iff in I. destruct I as [[k' idx] [E I]]. cbn in E. subst k'.
  exists idx. split; [exact I|]. intros v Wv.
  rewrite forallb_forall in HC. specialize (HC (k, idx) I). unfold vchain_ok in HC. cbn [fst snd] in HC.
  apply andb_true_iff in HC. destruct HC as [HC H4]. apply andb_true_iff in HC. destruct HC as [HC H3].
  apply andb_true_iff in HC. destruct HC as [H1 H2].
  apply nat_list_eqb_eq in H4. apply Nat.eqb_eq in H3. rewrite <- H4.
  assert (SC : forallb (check_vseg ifs) (vchain_of segs idx) = true).
  { unfold vchain_of. rewrite forallb_forall. intros s Hs. apply in_map_iff in Hs. destruct Hs as [i [Ei Ii]]. subst s.
    rewrite forallb_forall in H1. specialize (H1 i Ii). apply Nat.ltb_lt in H1.
    rewrite forallb_forall in HS. apply HS. now apply nth_In. }
  pose proof (vchain_sound ifs (vchain_of segs idx) ein SC H2 v Wv) as T. rewrite H3 in T. exact T.
Qed.

(* The obligations themselves are generated with the translation, one file per segment so that make checks them in
   parallel, and assembled in
     Gen/KernObl_avr5.v        avr5_ok      : backend_ok12 avr5_layout avr5_segs avr5_chains = true
     Gen/MaskedObl_avr5_x2.v   avr5_x2_ok   : vbackend_ok12 avr5_x2_ifaces avr5_x2_entry avr5_x2_exit avr5_x2_segs avr5_x2_chains = true
     Gen/MaskedObl_avr5_x2m3.v avr5_x2m3_ok   (the x2 file with 24-byte masked words, MAX_SHARES = 3)
     Gen/MaskedObl_avr5_x3.v   avr5_x3_ok
   each proved by `vm_compute` per segment (Gen/KernObl_avr5_<i>.v, Gen/MaskedObl_<name>_<i>.v). *)
