(* Obligations for the C permutation kernels (ascon_permute compiled by clang -O1 to LLVM IR,
   regenerated from /repo on every run: Gen/Kern_<backend>.v).  For every first_round 0..12
   the translated chain of segments equals dec ; rounds first_round..11 ; enc on all 2^320 states. *)
From Coq Require Import List Arith Bool Lia. Import ListNotations.
From AsconV Require Import Sym.Wexpr Sym.Pipe Sym.Kernel Sym.KernelP Gen.Kern_c64 Gen.Kern_c32 Gen.Kern_c64dx Gen.Kern_x86_64.

(* a backend = its distinct segments (each checked once) + for every first_round the chain as indices *)
Definition dummy_seg : seg := {| s_prog := {| p_body := []; p_outs := [] |}; s_in := IMem []; s_out := IMem []; s_rounds := [] |}.
Definition chain_of (segs : list seg) (idx : list nat) : list seg := map (fun i => nth i segs dummy_seg) idx.

Definition chain_ok (L : klayout) (segs : list seg) (kc : nat * list nat) : bool :=
  forallb (fun i => i <? length segs) (snd kc) &&
  check_struct_strict L (chain_of segs (snd kc)) &&
  nat_list_eqb (concat (map s_rounds (chain_of segs (snd kc)))) (seq (fst kc) (12 - fst kc)).
Definition backend_ok (L : klayout) (segs : list seg) (chains : list (nat * list nat)) : bool :=
  forallb (check_seg L) segs && forallb (chain_ok L segs) chains && nat_list_eqb (map fst chains) (seq 0 13).

Lemma c64_ok : backend_ok c64_layout c64_segs c64_chains = true. Proof. vm_compute. reflexivity. Qed.
Lemma c32_ok : backend_ok c32_layout c32_segs c32_chains = true. Proof. vm_compute. reflexivity. Qed.
Lemma c64dx_ok : backend_ok c64dx_layout c64dx_segs c64dx_chains = true. Proof. vm_compute. reflexivity. Qed.
Lemma x86_64_ok : backend_ok x86_64_layout x86_64_segs x86_64_chains = true. Proof. vm_compute. reflexivity. Qed.

(* the generic consequence: for every first_round k <= 12 there is a translated chain, and running it on any
   40 memory bytes gives enc (rounds k..11 (dec memory)) *)
Theorem backend_sound L segs chains : backend_ok L segs chains = true ->
  forall k, k <= 12 -> exists idx, In (k, idx) chains /\
  forall m oo, widths_of m = mem_widths -> widths_of oo = entry_others (chain_of segs idx) ->
  run_chain (chain_of segs idx) (m ++ oo) = pexec BoolAlg (chain_spec L (seq k (12 - k))) m.
Proof.
  unfold backend_ok. intros H k Hk. apply andb_true_iff in H. destruct H as [H HK].
  apply andb_true_iff in H. destruct H as [HS HC]. apply nat_list_eqb_eq in HK.
  assert (I : In k (map fst chains)) by (rewrite HK; apply in_seq; lia).
  apply in_map_iff in I. destruct I as [[k' idx] [E I]]. cbn in E. subst k'.
  exists idx. split; [exact I|]. intros m oo Wm Wo.
  rewrite forallb_forall in HC. specialize (HC (k, idx) I). unfold chain_ok in HC. cbn [fst snd] in HC.
  apply andb_true_iff in HC. destruct HC as [HC H3]. apply andb_true_iff in HC. destruct HC as [H1 H2].
  apply nat_list_eqb_eq in H3. rewrite <- H3. apply chain_sound; [|exact H2|exact Wm|exact Wo].
  unfold chain_of. rewrite forallb_forall. intros s Hs. apply in_map_iff in Hs. destruct Hs as [i [Ei Ii]]. subst s.
  rewrite forallb_forall in H1. specialize (H1 i Ii). apply Nat.ltb_lt in H1.
  rewrite forallb_forall in HS. apply HS. now apply nth_In.
Qed.

(* the same, through the canonical byte view (Sym/Canon.v): every backend whose obligations check computes
   ONE function of the canonical bytes - rounds k..11 in the layout-free (KL8) specification *)
From AsconV Require Import Sym.Canon.
Lemma seq_lt12 k : k <= 12 -> forallb (fun j => j <? 12) (seq k (12 - k)) = true.
Proof. intros H. apply forallb_forall. intros j Hj. apply in_seq in Hj. apply Nat.ltb_lt. lia. Qed.
Theorem backend_canonical L segs chains : backend_ok L segs chains = true ->
  forall k, k <= 12 -> exists idx, In (k, idx) chains /\
  forall m oo, widths_of m = mem_widths -> widths_of oo = entry_others (chain_of segs idx) ->
  pexec BoolAlg (view L) (run_chain (chain_of segs idx) (m ++ oo)) =
  pexec BoolAlg (chain_spec KL8 (seq k (12 - k))) (pexec BoolAlg (view L) m).
Proof.
  intros H k Hk. destruct (backend_sound L segs chains H k Hk) as [idx [I E]]. exists idx. split; [exact I|].
  intros m oo Wm Wo. rewrite (E m oo Wm Wo). apply canon_chain; [exact Wm | now apply seq_lt12].
Qed.
