(* Hand-written SPECIFICATION side of the (T) obligations for the masked-word toolkit, masked keys, masked
   states, masked permutation kernels (C10) and the nonce / tag helpers (C14, C02).

   The translators (tools/kern_mword.py, kern_mword2.py, kern_tag.py, kern_masked*.py) regenerate, from /repo's
   current source, the PROGRAM of every function (symbolic data, concrete control).  What a program is compared
   with is defined HERE, not in Python: from a small descriptor [fn_desc] (kind of operation, backend, share
   count, MAX_SHARES, which program inputs are the fresh random words and through which fixed bijection each of
   them enters) the functions [std_post] / [std_spec] build the observation and the specification program.
   A generated obligation carries only its descriptor; Obl/FnObl.fn_obl_ok checks that the observation /
   specification programs printed next to it ARE [std_post d] / [std_spec d] (syntactic equality [prog_eqb]),
   that the descriptor is well-formed against the input widths ([desc_wf]) and that the C function name is
   the one belonging to (kind, n) ([c_name]).  Props/Properties_C10*.v, Properties_C14.v state their theorems
   with [std_post] / [std_spec] and pin, by hand-written lists ([req_*] below), which (kind, backend, n, max)
   every table must contain.

   Words are bit lists, least significant bit first (Sym/Wexpr.v); inputs of a program are bytes (width 8)
   of the memory regions in argument order, then the random words in call order (plus, for assembly, the
   registers the front end adds).

   Value of a masked word (src/masking/ascon-masked-word.h, ascon-masked-word-c64.c / -c32.c):
     64-bit backends : uint64_t S[MAX_SHARES], logical share j = rotl_{11 j} S[j]
     32-bit backend  : uint32_t W[2 MAX_SHARES], W[2j] / W[2j+1] = even / odd bits of share j, each rotated
                       right by 5 j:  logical share j = interleave (rotl_{5j} W[2j]) (rotl_{5j} W[2j+1])
     value           = XOR of the logical shares 0 .. n-1;   shares n .. MAX_SHARES-1 are the surplus shares. *)
From Coq Require Import List Arith Bool NArith String Ascii Lia.
From AsconV Require Import Sym.Wexpr Sym.Pipe.
Import ListNotations.
Local Open Scope nat_scope.

(* ================================================================== syntactic equality of programs *)

Fixpoint wexpr_eqb (a b : wexpr) : bool :=
  match a, b with
  | WIn i, WIn j => Nat.eqb i j
  | WTmp i, WTmp j => Nat.eqb i j
  | WConst w n, WConst w' n' => Nat.eqb w w' && N.eqb n n'
  | WNot e, WNot e' => wexpr_eqb e e'
  | WXor a1 a2, WXor b1 b2 => wexpr_eqb a1 b1 && wexpr_eqb a2 b2
  | WAnd a1 a2, WAnd b1 b2 => wexpr_eqb a1 b1 && wexpr_eqb a2 b2
  | WOr a1 a2, WOr b1 b2 => wexpr_eqb a1 b1 && wexpr_eqb a2 b2
  | WShl k e, WShl k' e' => Nat.eqb k k' && wexpr_eqb e e'
  | WShr k e, WShr k' e' => Nat.eqb k k' && wexpr_eqb e e'
  | WRotr k e, WRotr k' e' => Nat.eqb k k' && wexpr_eqb e e'
  | WZext k e, WZext k' e' => Nat.eqb k k' && wexpr_eqb e e'
  | WTrunc k e, WTrunc k' e' => Nat.eqb k k' && wexpr_eqb e e'
  | WConcat a1 a2, WConcat b1 b2 => wexpr_eqb a1 b1 && wexpr_eqb a2 b2
  | WInterleave a1 a2, WInterleave b1 b2 => wexpr_eqb a1 b1 && wexpr_eqb a2 b2
  | WEven e, WEven e' => wexpr_eqb e e'
  | WOdd e, WOdd e' => wexpr_eqb e e'
  | _, _ => false
  end.

Lemma wexpr_eqb_eq : forall a b, wexpr_eqb a b = true -> a = b.
Proof.
  induction a; intros b H; destruct b; try discriminate H; cbn [wexpr_eqb] in H;
    repeat match goal with
           | H : _ && _ = true |- _ => let H1 := fresh "H" in let H2 := fresh "H" in
                                       apply andb_true_iff in H; destruct H as [H1 H2]
           end;
    repeat match goal with
           | H : Nat.eqb _ _ = true |- _ => apply Nat.eqb_eq in H; subst
           | H : N.eqb _ _ = true |- _ => apply N.eqb_eq in H; subst
           end;
    f_equal; auto.
Qed.

Fixpoint wlist_eqb (a b : list wexpr) : bool :=
  match a, b with
  | [], [] => true
  | x :: a', y :: b' => wexpr_eqb x y && wlist_eqb a' b'
  | _, _ => false
  end.
Lemma wlist_eqb_eq : forall a b, wlist_eqb a b = true -> a = b.
Proof.
  induction a as [|x a IH]; intros b H; destruct b as [|y b]; try discriminate H; [reflexivity|].
  cbn [wlist_eqb] in H. apply andb_true_iff in H. destruct H as [H1 H2].
  apply wexpr_eqb_eq in H1. subst. f_equal. now apply IH.
Qed.

Definition prog_eqb (p q : prog) : bool := wlist_eqb (p_body p) (p_body q) && wlist_eqb (p_outs p) (p_outs q).
Lemma prog_eqb_eq p q : prog_eqb p q = true -> p = q.
Proof.
  unfold prog_eqb. intros H. apply andb_true_iff in H. destruct H as [H1 H2].
  apply wlist_eqb_eq in H1. apply wlist_eqb_eq in H2. destruct p, q. cbn in *. now subst.
Qed.

(* ================================================================== building blocks *)

Definition outs_prog (outs : list wexpr) : prog := {| p_body := []; p_outs := outs |}.
Definition ins_from (base k : nat) : list wexpr := map (fun i => WIn (base + i)) (seq 0 k).
Definition ident_prog (k : nat) : prog := outs_prog (ins_from 0 k).

(* k >= 1 consecutive input bytes starting at [base] as one word: little endian (byte [base] is the least
   significant one) / big endian (byte [base] is the most significant one).  WConcat hi lo. *)
Definition le_bytes (base k : nat) : wexpr :=
  fold_right (fun b e => WConcat (WIn (base + b)) e) (WIn base) (rev (seq 1 (k - 1))).
Definition be_bytes (base k : nat) : wexpr :=
  fold_right (fun b e => WConcat (WIn (base + b)) e) (WIn (base + (k - 1))) (seq 0 (k - 1)).

Definition xor_all (ts : list wexpr) : wexpr :=
  match ts with [] => WConst 64 0 | t :: r => fold_left WXor r t end.

(* rotations of a 64-bit word by k bits (WRotr rotates right) *)
Definition rotl64 (e : wexpr) (k : nat) : wexpr := if k mod 64 =? 0 then e else WRotr (64 - k mod 64) e.
Definition rotr64 (e : wexpr) (k : nat) : wexpr := if k mod 64 =? 0 then e else WRotr (k mod 64) e.

(* the eight bytes of a 64-bit word, most significant first *)
Definition bytes_of_be (e : wexpr) : list wexpr := map (fun k => WTrunc 8 (WShr (8 * (7 - k)) e)) (seq 0 8).
(* byte swap of a 64-bit word *)
Definition bswap64 (e : wexpr) : wexpr :=
  let bs k := if k =? 0 then WTrunc 8 e else WTrunc 8 (WShr (8 * k) e) in
  fold_right (fun k r => WConcat (bs k) r) (bs 7) (seq 0 7).
(* k big-endian bytes in the top k bytes of a 64-bit word, the rest zero *)
Definition left_aligned (base k : nat) : wexpr :=
  if k =? 0 then WConst 64 0 else if k =? 8 then be_bytes base 8 else WConcat (be_bytes base k) (WConst (64 - 8 * k) 0).

(* ------------------------------------------------------------------ value functions *)
Inductive mbackend := B64 | B32.

(* stored share j of the masked word at input byte [base] (64-bit backends): S[j], little-endian in memory *)
Definition stored64 (base j : nat) : wexpr := le_bytes (base + 8 * j) 8.

(* logical share j: the stored share un-rotated *)
Definition logical (be : mbackend) (base j : nat) : wexpr :=
  match be with
  | B64 => rotl64 (stored64 base j) (11 * j)
  | B32 => let h off := if j =? 0 then le_bytes off 4 else WRotr (32 - 5 * j) (le_bytes off 4) in
           WInterleave (h (base + 8 * j)) (h (base + 8 * j + 4))
  end.

(* the unmasked value of the n-share masked word at [base] *)
Definition mval (be : mbackend) (n base : nat) : wexpr := xor_all (map (logical be base) (seq 0 n)).
Definition mval64 := mval B64.
Definition mval32 := mval B32.

(* surplus shares n .. max-1 of the word at [base], byte by byte; and what they are when cleared *)
Definition surplus (n max base : nat) : list wexpr := map (fun i => WIn (base + i)) (seq (8 * n) (8 * max - 8 * n)).
Definition zeros8 (n max : nat) : list wexpr := repeat (WConst 8 0) (8 * max - 8 * n).

(* i-th 64-bit word of the unmasked state (40 bytes at [base]) in the layout of the unmasked backend of the
   same build: uint64_t S[5] / uint32_t W[10] even-odd; [dx]: the direct-XOR backends keep the state as its 40
   canonical big-endian bytes (ASCON_BACKEND_DIRECT_XOR branches of ascon_xN_copy_from_x1 / copy_to_x1) *)
Definition x1word (be : mbackend) (dx : bool) (base i : nat) : wexpr :=
  if dx then be_bytes (base + 8 * i) 8 else
  match be with
  | B64 => le_bytes (base + 8 * i) 8
  | B32 => WInterleave (le_bytes (base + 8 * i) 4) (le_bytes (base + 8 * i + 4) 4)
  end.

(* the value program of the memory interface of the masked permutation kernels: the five words of the masked
   state (word i at byte 8 max i).  The 32-bit kernels' translator writes the same function as
   "XOR the un-rotated halves, then interleave" ([kval32]; [kval32_is_mval32] below). *)
Definition kval32 (n base : nat) : wexpr :=
  let h off j := if j =? 0 then le_bytes off 4 else WRotr (32 - 5 * j) (le_bytes off 4) in
  WInterleave (xor_all (map (fun j => h (base + 8 * j) j) (seq 0 n)))
              (xor_all (map (fun j => h (base + 8 * j + 4) j) (seq 0 n))).
Definition state_val (be : mbackend) (n max : nat) : prog :=
  outs_prog (map (fun i => match be with B64 => mval64 n (8 * max * i) | B32 => kval32 n (8 * max * i) end) (seq 0 5)).
Definition state_bytes (n max : nat) : nat := 5 * 8 * max + 8 * (n - 1).     (* masked state, then the preserved randomness *)

(* ------------------------------------------------------------------ fresh randomness *)
(* One unit per fresh share: a 64-bit word (input r) or two consecutive 32-bit words (inputs a, b), and the
   fixed bijection of 64-bit words through which it becomes the logical share. *)
Inductive rentry :=
| RId (r : nat) | RBswap (r : nat)
| RRotr (k r : nat) | RBswapRotr (k r : nat) | RRotl (k r : nat)          (* rotation by k bits (partial loads: k = 8 size) *)
| REvenOdd (a b : nat) | RHighLow (a b : nat) | REvenOddRotl (j a b : nat)  (* the pair as bit planes / halves; planes rotated left by 5 j *)
| ROddEven (a b : nat) | RLowHigh (a b : nat).

Definition unit_expr (u : rentry) : wexpr :=
  match u with
  | RId r => WIn r
  | RBswap r => bswap64 (WIn r)
  | RRotr k r => rotr64 (WIn r) k
  | RBswapRotr k r => rotr64 (bswap64 (WIn r)) k
  | RRotl k r => rotl64 (WIn r) k
  | REvenOdd a b => WInterleave (WIn a) (WIn b)
  | RHighLow a b => WConcat (WIn a) (WIn b)
  | REvenOddRotl j a b => WInterleave (WRotr (32 - 5 * j) (WIn a)) (WRotr (32 - 5 * j) (WIn b))
  | ROddEven a b => WInterleave (WIn b) (WIn a)
  | RLowHigh a b => WConcat (WIn b) (WIn a)
  end.
(* the program inputs a unit reads, with their widths *)
Definition unit_inputs (u : rentry) : list (nat * nat) :=
  match u with
  | RId r | RBswap r | RRotr _ r | RBswapRotr _ r | RRotl _ r => [(r, 64)]
  | REvenOdd a b | RHighLow a b | REvenOddRotl _ a b | ROddEven a b | RLowHigh a b => [(a, 32); (b, 32)]
  end.

(* ================================================================== descriptors *)

Inductive okind :=
(* masked-word toolkit *)
| KLoad | KStore | KRandomize (inplace : bool) | KXor | KFromX (m : nat) (inplace : bool)
| KZero | KLoadPartial (size : nat) | KLoad32 | KStorePartial (size : nat) | KReplace (size : nat)
| KPad (offset : nat) | KSeparator
(* masked keys (bits = 128 / 160), n = KEY_SHARES *)
| KKeyInit (bits : nat) | KKeyExtract (bits : nat) | KKeyRandomize (bits : nat)
(* masked states *)
| KStRandomize | KStCopy (m : nat) (inplace : bool) | KStFromX1 (dx : bool) | KStToX1 (dx : bool)   (* dx: unmasked state = canonical bytes *)
(* nonce and tag helpers (no shares) *)
| KIncr128 | KSetCounter | KCheckTag (plen size : nat).

Inductive frontend := FLlvm | FX86.

Record fn_desc := {
  fd_fn : string;           (* the C / assembly function *)
  fd_kind : okind;
  fd_be : mbackend;         (* value algebra *)
  fd_front : frontend;      (* FLlvm: the inputs are exactly the region bytes then the random words *)
  fd_raw : bool;            (* observe / specify the STORED shares (tools/kern_mword.py) instead of the logical ones *)
  fd_n : nat;               (* shares (0 for the helpers that have none) *)
  fd_max : nat;             (* ASCON_MASKED_MAX_SHARES of the container *)
  fd_rand : list rentry }.  (* the fresh units in call order *)

Section Std.
Variable d : fn_desc.
Let be := fd_be d.
Let n := fd_n d.
Let max := fd_max d.
Let WB := 8 * max.                                  (* bytes of one masked word *)
Let KS := 32.                                       (* bytes of one masked KEY word: ascon_masked_key_word_t is uint64_t S[4] whatever
                                                       MAX_SHARES is (src/ascon/masking.h); the code uses its first 8 max bytes *)
Let U (k : nat) : wexpr := nth k (map unit_expr (fd_rand d)) (WConst 1 1).

Definition obs_share (base j : nat) : wexpr := if fd_raw d then stored64 base j else logical be base j.
Definition fresh_share (j : nat) (u : wexpr) : wexpr := if fd_raw d then rotr64 u (11 * j) else u.
Let js : list nat := seq 1 (n - 1).                 (* the shares that receive a fresh unit *)

(* a freshly masked word at output byte [base]: (value, shares 1..n-1, surplus) against (v, the units from u0, zeros) *)
Definition fresh_post (base : nat) : list wexpr := map (obs_share base) js.
Definition fresh_spec (u0 : nat) : list wexpr := map (fun j => fresh_share j (U (u0 + j - 1))) js.

(* a re-randomised word: observation at [ob] (output), old word at input byte [sb], surplus of the destination at [db] *)
Definition rand_post (ob : nat) : list wexpr := mval be n ob :: map (obs_share ob) (seq 0 n) ++ surplus n max ob.
Definition rand_spec (sb db u0 : nat) : list wexpr :=
  mval be n sb :: xor_all (logical be sb 0 :: map (fun j => U (u0 + j - 1)) js) ::
  map (fun j => WXor (obs_share sb j) (fresh_share j (U (u0 + j - 1)))) js ++ surplus n max db.

Definition key_words (bits : nat) : nat := if bits =? 128 then 2 else 6.
(* the key words as the mode code uses them (ascon-masked-key.c): 128: K[0..7], K[8..15];
   160: K[0..7], K[8..15], K[16..19] in the top half, K[0..3] in the low half, K[4..11], K[12..19] *)
Definition key_vals (bits : nat) : list wexpr :=
  if bits =? 128 then [be_bytes 0 8; be_bytes 8 8]
  else [be_bytes 0 8; be_bytes 8 8; WShl 32 (WZext 64 (be_bytes 16 4)); WZext 64 (be_bytes 0 4); be_bytes 4 8; be_bytes 12 8].

(* the tag comparison's accumulated difference d (a byte), "d <> 0" spread over 8 / 32 bits; straight-line with temporaries *)
Definition emit (body : list wexpr) (e : wexpr) : list wexpr * wexpr := (body ++ [e], WTmp (List.length body)).
Fixpoint or_fold (fuel k w : nat) (body : list wexpr) (v : wexpr) : list wexpr * wexpr :=
  match fuel with
  | O => (body, v)
  | S f => if k <? w then let (b, v') := emit body (WOr v (WShr k v)) in or_fold f (2 * k) w b v' else (body, v)
  end.
Fixpoint spread_loop (fuel k w : nat) (body : list wexpr) (v : wexpr) : list wexpr * wexpr :=
  match fuel with
  | O => (body, v)
  | S f => if k <? w then let (b, v') := emit body (WOr v (WShl k v)) in spread_loop f (2 * k) w b v' else (body, v)
  end.
Definition spread (body : list wexpr) (e : wexpr) (outw : nat) : list wexpr * wexpr :=
  let (b, v) := emit body (WZext outw (WTrunc 1 e)) in spread_loop 8 1 outw b v.

Definition check_tag_spec (plen size : nat) : prog :=
  let '(b, dd) := fold_left (fun st i => emit (fst st) (WOr (snd st) (WXor (WIn (plen + i)) (WIn (plen + size + i)))))
                            (seq 0 size) ([], WConst 8 0) in
  let '(b, nz) := or_fold 8 1 8 b dd in
  let '(b, m8) := spread b nz 8 in
  let '(b, m32) := spread b nz 32 in
  let '(b, keep) := emit b (WNot m8) in
  {| p_body := b; p_outs := map (fun j => WAnd (WIn j) keep) (seq 0 plen) ++ [m32] |}.

(* npub + 1 as a 128-bit big-endian integer: ripple carry from byte 15 down to byte 0.  Per byte x with carry-in c
   (0/1 in bit 0): bit k flips iff c and x_0 .. x_{k-1} are all set; carry out = c and all eight bits set. *)
Definition incr_byte (st : list wexpr * wexpr * list (nat * wexpr)) (i : nat) : list wexpr * wexpr * list (nat * wexpr) :=
  let '(b, carry, outs) := st in
  let x := WIn i in
  let '(b, run0) := emit b (WAnd carry (WConst 8 1)) in
  let '(b, run, flips) := fold_left (fun s (_ : nat) => let '(b, run, flips) := s in
                                       let '(b, run') := emit b (WShl 1 (WAnd run x)) in
                                       let '(b, flips') := emit b (WOr flips run') in (b, run', flips'))
                                    (seq 1 7) (b, run0, run0) in
  let '(b, o) := emit b (WXor x flips) in
  let '(b, c') := emit b (WShr 7 (WAnd run x)) in
  (b, c', (i, o) :: outs).
Definition incr128_spec : prog :=
  let '(b, _, outs) := fold_left incr_byte (rev (seq 0 16)) ([], WConst 8 1, []) in
  {| p_body := b; p_outs := map snd outs |}.

(* eight zero bytes, then the 64-bit counter (program input [ni]) big-endian *)
Definition setctr_spec (ni : nat) : prog :=
  outs_prog (repeat (WConst 8 0) 8 ++ map (fun k => WTrunc 8 (WShr (8 * (7 - k)) (WIn ni))) (seq 0 8)).

Definition pad_const (off : nat) : N := N.shiftl 128 (N.of_nat (56 - 8 * off)).
Definition m64 : N := 18446744073709551615.
Definition top_mask (size : nat) : N := N.land (N.shiftl m64 (N.of_nat (64 - 8 * size))) m64.

(* number of region bytes among the inputs (they come first, all of width 8) *)
Definition kind_bytes : nat :=
  match fd_kind d with
  | KLoad => WB + 8 | KStore => 8 + WB | KRandomize ip => if ip then WB else 2 * WB | KXor => 2 * WB
  | KFromX _ ip => if ip then WB else 2 * WB
  | KZero => WB | KLoadPartial s => WB + s | KLoad32 => WB + 8 | KStorePartial s => s + WB | KReplace _ => 2 * WB
  | KPad _ | KSeparator => WB
  | KKeyInit bits => bits / 8 | KKeyExtract bits => bits / 8 + KS * key_words bits | KKeyRandomize bits => KS * key_words bits
  | KStRandomize => 5 * WB | KStCopy _ ip => if ip then 5 * WB else 10 * WB | KStFromX1 _ => 5 * WB + 40 | KStToX1 _ => 40 + 5 * WB
  | KIncr128 => 16 | KSetCounter => 16 | KCheckTag plen size => plen + 2 * size
  end.

(* how many fresh units the specification mentions (None: it mentions none, any number may be drawn) *)
Definition units_needed : option nat :=
  match fd_kind d with
  | KLoad | KRandomize _ | KZero | KLoadPartial _ | KLoad32 => Some (n - 1)
  | KKeyInit bits | KKeyRandomize bits => Some (key_words bits * (n - 1))
  | KStRandomize | KStFromX1 _ => Some (5 * (n - 1))
  | KStore | KXor | KStorePartial _ | KReplace _ | KPad _ | KSeparator | KKeyExtract _ | KStToX1 _
  | KIncr128 | KSetCounter | KCheckTag _ _ => Some 0
  | KFromX _ _ | KStCopy _ _ => None
  end.

(* ------------------------------------------------------------------ observation (over the program's outputs) *)
Definition std_post : prog :=
  match fd_kind d with
  | KLoad | KZero | KLoadPartial _ | KLoad32 => outs_prog (mval be n 0 :: fresh_post 0 ++ surplus n max 0)
  | KStore => ident_prog 8
  | KStorePartial s => ident_prog s
  | KRandomize _ => outs_prog (rand_post 0)
  | KXor | KFromX _ _ | KReplace _ => outs_prog (mval be n 0 :: surplus n max 0)
  | KPad _ | KSeparator => outs_prog (map (fun k => mval be k 0) (seq 2 (max - 1)) ++ ins_from 8 (WB - 8))
  | KKeyInit bits =>
      let ws := seq 0 (key_words bits) in
      outs_prog (map (fun w => mval be n (KS * w)) ws ++ flat_map (fun w => fresh_post (KS * w)) ws ++
                 flat_map (fun w => surplus n max (KS * w)) ws)
  | KKeyExtract bits => ident_prog (bits / 8)
  | KKeyRandomize bits => outs_prog (flat_map (fun w => rand_post (KS * w)) (seq 0 (key_words bits)))
  | KStRandomize => outs_prog (flat_map (fun w => rand_post (WB * w)) (seq 0 5))
  | KStCopy _ _ => outs_prog (map (fun w => mval be n (WB * w)) (seq 0 5))
  | KStFromX1 _ =>
      let ws := seq 0 5 in
      outs_prog (map (fun w => mval be n (WB * w)) ws ++ flat_map (fun w => fresh_post (WB * w)) ws ++
                 flat_map (fun w => surplus n max (WB * w)) ws)
  | KStToX1 dx => outs_prog (map (x1word be dx 0) (seq 0 5))
  | KIncr128 | KSetCounter => ident_prog 16
  | KCheckTag plen _ => ident_prog (plen + 1)
  end.

(* ------------------------------------------------------------------ specification (over the program's inputs) *)
Definition std_spec : prog :=
  match fd_kind d with
  (* value = the 8 data bytes big-endian; share j >= 1 = its own fresh unit; surplus shares cleared *)
  | KLoad => outs_prog (be_bytes WB 8 :: fresh_spec 0 ++ zeros8 n max)
  | KZero => outs_prog (WConst 64 0 :: fresh_spec 0 ++ zeros8 n max)
  (* the s data bytes in the top s bytes of the value, the rest zero *)
  | KLoadPartial s => outs_prog (left_aligned WB s :: fresh_spec 0 ++ zeros8 n max)
  | KLoad32 => outs_prog (WConcat (be_bytes WB 4) (be_bytes (WB + 4) 4) :: fresh_spec 0 ++ zeros8 n max)
  (* the bytes of the value of the word, most significant first *)
  | KStore => outs_prog (bytes_of_be (mval be n 8))
  | KStorePartial s => outs_prog (firstn s (bytes_of_be (mval be n s)))
  (* value kept; share 0 moved by the XOR of the units, share j >= 1 by its own unit; surplus of dest untouched *)
  | KRandomize ip => outs_prog (rand_spec (if ip then 0 else WB) 0 0)
  | KXor => outs_prog (WXor (mval be n 0) (mval be n WB) :: surplus n max 0)
  (* value of the m-share source kept; surplus shares of the result cleared *)
  | KFromX m ip => outs_prog (mval be m (if ip then 0 else WB) :: zeros8 n max)
  (* top s bytes of the value from src, the others from dest; surplus of dest untouched *)
  | KReplace s =>
      outs_prog (WOr (WAnd (mval be n 0) (WConst 64 (N.lxor m64 (top_mask s)))) (WAnd (mval be n WB) (WConst 64 (top_mask s)))
                 :: surplus n max 0)
  (* for every share count alike: value xor 0x80 at byte `offset` from the top / xor 1; the other shares untouched *)
  | KPad off => outs_prog (map (fun k => WXor (mval be k 0) (WConst 64 (pad_const off))) (seq 2 (max - 1)) ++ ins_from 8 (WB - 8))
  | KSeparator => outs_prog (map (fun k => WXor (mval be k 0) (WConst 64 1)) (seq 2 (max - 1)) ++ ins_from 8 (WB - 8))
  | KKeyInit bits =>
      let ws := seq 0 (key_words bits) in
      outs_prog (key_vals bits ++ flat_map (fun w => fresh_spec (w * (n - 1))) ws ++ flat_map (fun _ => zeros8 n max) ws)
  | KKeyExtract bits =>
      let kb := bits / 8 in
      outs_prog (bytes_of_be (mval be n kb) ++ bytes_of_be (mval be n (kb + KS)) ++
                 (if bits =? 160 then firstn 4 (bytes_of_be (mval be n (kb + 2 * KS))) else []))
  | KKeyRandomize bits => outs_prog (flat_map (fun w => rand_spec (KS * w) (KS * w) (w * (n - 1))) (seq 0 (key_words bits)))
  | KStRandomize => outs_prog (flat_map (fun w => rand_spec (WB * w) (WB * w) (w * (n - 1))) (seq 0 5))
  | KStCopy m ip => outs_prog (map (fun w => mval be m ((if ip then 0 else 5 * WB) + WB * w)) (seq 0 5))
  (* the five values are the five words of the unmasked state, every share j >= 1 of every word its own fresh unit, surplus 0 *)
  | KStFromX1 dx =>
      let ws := seq 0 5 in
      outs_prog (map (x1word be dx (5 * WB)) ws ++ flat_map (fun w => fresh_spec (w * (n - 1))) ws ++ flat_map (fun _ => zeros8 n max) ws)
  | KStToX1 _ => outs_prog (map (fun w => mval be n (40 + WB * w)) (seq 0 5))
  | KIncr128 => incr128_spec
  | KSetCounter => setctr_spec 16
  | KCheckTag plen size => check_tag_spec plen size
  end.
End Std.

(* ================================================================== the C name belonging to (kind, n) *)
Local Open Scope string_scope.
Definition dig (k : nat) : string :=
  match k with 0 => "0" | 1 => "1" | 2 => "2" | 3 => "3" | 4 => "4" | 5 => "5" | 6 => "6" | 7 => "7" | 8 => "8" | _ => "9" end.
Definition bits_str (bits : nat) : string := if Nat.eqb bits 128 then "128" else if Nat.eqb bits 160 then "160" else "?".
Definition c_name (k : okind) (n : nat) : string :=
  let mw op := "ascon_masked_word_x" ++ dig n ++ "_" ++ op in
  match k with
  | KLoad => mw "load" | KStore => mw "store" | KRandomize _ => mw "randomize" | KXor => mw "xor"
  | KFromX m _ => mw ("from_x" ++ dig m)
  | KZero => mw "zero" | KLoadPartial _ => mw "load_partial" | KLoad32 => mw "load_32"
  | KStorePartial _ => mw "store_partial" | KReplace _ => mw "replace"
  | KPad _ => "ascon_masked_word_pad" | KSeparator => "ascon_masked_word_separator"
  | KKeyInit b => "ascon_masked_key_" ++ bits_str b ++ "_init"
  | KKeyExtract b => "ascon_masked_key_" ++ bits_str b ++ "_extract"
  | KKeyRandomize b => "ascon_masked_key_" ++ bits_str b ++ "_randomize_with_trng"
  | KStRandomize => "ascon_x" ++ dig n ++ "_randomize"
  | KStCopy m _ => "ascon_x" ++ dig n ++ "_copy_from_x" ++ dig m
  | KStFromX1 _ => "ascon_x" ++ dig n ++ "_copy_from_x1"
  | KStToX1 _ => "ascon_x" ++ dig n ++ "_copy_to_x1"
  | KIncr128 => "ascon_aead_increment_nonce" | KSetCounter => "ascon_aead_set_counter" | KCheckTag _ _ => "ascon_aead_check_tag"
  end.
Local Close Scope string_scope.

(* ================================================================== well-formedness of a descriptor *)
Definition has_shares (k : okind) : bool :=
  match k with KPad _ | KSeparator | KIncr128 | KSetCounter | KCheckTag _ _ => false | _ => true end.
Definition other_shares (k : okind) : option nat :=
  match k with KFromX m _ | KStCopy m _ => Some m | _ => None end.
Definition small_arg_ok (k : okind) : bool :=
  match k with
  | KLoadPartial s | KStorePartial s | KReplace s => s <=? 7
  | KPad o => o <=? 7
  | KKeyInit b | KKeyExtract b | KKeyRandomize b => (b =? 128) || (b =? 160)
  | _ => true
  end.

Fixpoint increasing_from (lo : nat) (l : list nat) : bool :=
  match l with [] => true | x :: r => (lo <=? x) && increasing_from (S x) r end.

(* [widths]: the widths of the program's inputs.  The region bytes come first; the units read distinct inputs
   behind them, in call order, of the right widths; for the LLVM front end there is no other input (the counter
   argument of set_counter is input 16); the specification's units are all there; share counts fit the container;
   the function name is the one of (kind, n). *)
Definition desc_wf (widths : list nat) (d : fn_desc) : bool :=
  let nb := kind_bytes d in
  let ri := flat_map unit_inputs (fd_rand d) in
  let extra := match fd_kind d with KSetCounter => 1 | _ => 0 end in
  nat_list_eqb (firstn nb widths) (repeat 8 nb) &&
  increasing_from (nb + extra) (map fst ri) &&
  forallb (fun p => (fst p <? List.length widths) && (nth (fst p) widths 0 =? snd p)) ri &&
  match fd_front d with FLlvm => List.length widths =? nb + extra + List.length ri | FX86 => true end &&
  match fd_kind d with KSetCounter => nth 16 widths 0 =? 64 | _ => true end &&
  match units_needed d with Some k => List.length (fd_rand d) =? k | None => true end &&
  (if has_shares (fd_kind d) then (2 <=? fd_n d) && (fd_n d <=? fd_max d) else fd_n d =? 0) &&
  match other_shares (fd_kind d) with Some m => (2 <=? m) && (m <=? fd_max d) | None => true end &&
  (2 <=? fd_max d) && (fd_max d <=? 4) &&
  small_arg_ok (fd_kind d) &&
  (negb (fd_raw d) || match fd_be d with B64 => true | B32 => false end) &&
  String.eqb (fd_fn d) (c_name (fd_kind d) (fd_n d)).

(* ================================================================== equality of kinds, coverage *)
Definition okind_eqb (a b : okind) : bool :=
  match a, b with
  | KLoad, KLoad | KStore, KStore | KXor, KXor | KZero, KZero | KLoad32, KLoad32 | KSeparator, KSeparator
  | KStRandomize, KStRandomize | KIncr128, KIncr128 | KSetCounter, KSetCounter => true
  | KRandomize i, KRandomize i' | KStFromX1 i, KStFromX1 i' | KStToX1 i, KStToX1 i' => Bool.eqb i i'
  | KFromX m i, KFromX m' i' => (m =? m') && Bool.eqb i i'
  | KStCopy m i, KStCopy m' i' => (m =? m') && Bool.eqb i i'
  | KLoadPartial s, KLoadPartial s' | KStorePartial s, KStorePartial s' | KReplace s, KReplace s' | KPad s, KPad s' => s =? s'
  | KKeyInit b, KKeyInit b' | KKeyExtract b, KKeyExtract b' | KKeyRandomize b, KKeyRandomize b' => b =? b'
  | KCheckTag p s, KCheckTag p' s' => (p =? p') && (s =? s')
  | _, _ => false
  end.
Lemma okind_eqb_eq a b : okind_eqb a b = true -> a = b.
Proof.
  destruct a, b; cbn; intros H; try discriminate H; try reflexivity;
    repeat match goal with
           | H : _ && _ = true |- _ => let H1 := fresh "H" in let H2 := fresh "H" in
                                       apply andb_true_iff in H; destruct H as [H1 H2]
           end;
    repeat match goal with
           | H : Nat.eqb _ _ = true |- _ => apply Nat.eqb_eq in H; subst
           | H : Bool.eqb _ _ = true |- _ => apply Bool.eqb_prop in H; subst
           end; reflexivity.
Qed.
Definition mbackend_eqb (a b : mbackend) : bool := match a, b with B64, B64 | B32, B32 => true | _, _ => false end.
Lemma mbackend_eqb_eq a b : mbackend_eqb a b = true -> a = b.
Proof. destruct a, b; cbn; intros H; try discriminate H; reflexivity. Qed.

(* a requirement: this kind, for this value algebra, share count and container, must be in the table *)
Definition fn_req := (okind * mbackend * nat * nat)%type.
Definition desc_meets (q : fn_req) (d : fn_desc) : bool :=
  let '(k, be, n, max) := q in
  okind_eqb (fd_kind d) k && mbackend_eqb (fd_be d) be && (fd_n d =? n) && (fd_max d =? max).
Lemma desc_meets_sound k be n max d : desc_meets (k, be, n, max) d = true ->
  fd_kind d = k /\ fd_be d = be /\ fd_n d = n /\ fd_max d = max.
Proof.
  unfold desc_meets. intros H. apply andb_true_iff in H. destruct H as [H H4]. apply andb_true_iff in H. destruct H as [H H3].
  apply andb_true_iff in H. destruct H as [H1 H2].
  apply okind_eqb_eq in H1. apply mbackend_eqb_eq in H2. apply Nat.eqb_eq in H3. apply Nat.eqb_eq in H4. auto.
Qed.

(* ------------------------------------------------------------------ the hand-written coverage lists *)
Definition shares234 (max : nat) : list nat := seq 2 (max - 1).
Definition others (max n : nat) : list nat := filter (fun m => negb (m =? n)) (shares234 max).
Definition sizes07 : list nat := seq 0 8.

(* load, store, randomize, xor, share-count conversions (distinct and in place) *)
Definition req_toolkit (be : mbackend) (max : nat) (randomize_inplace : bool) : list fn_req :=
  flat_map (fun n => [(KLoad, be, n, max); (KStore, be, n, max); (KRandomize false, be, n, max); (KXor, be, n, max)] ++
                     (if randomize_inplace then [(KRandomize true, be, n, max)] else []) ++
                     flat_map (fun m => [(KFromX m false, be, n, max); (KFromX m true, be, n, max)]) (others max n))
           (shares234 max).
(* zero, load_partial 0..7, load_32, store_partial 0..7, replace 0..7 per share count; pad 0..7, separator *)
Definition req_ops (be : mbackend) (max : nat) : list fn_req :=
  flat_map (fun n => [(KZero, be, n, max); (KLoad32, be, n, max)] ++ map (fun s => (KLoadPartial s, be, n, max)) sizes07 ++
                     map (fun s => (KStorePartial s, be, n, max)) sizes07 ++ map (fun s => (KReplace s, be, n, max)) sizes07)
           (shares234 max) ++
  map (fun o => (KPad o, be, 0, max)) sizes07 ++ [(KSeparator, be, 0, max)].
(* masked keys: 128 and 160 bits, KEY_SHARES 2..4, in the 4-share key container *)
Definition req_keys (be : mbackend) : list fn_req :=
  flat_map (fun n => flat_map (fun b => [(KKeyInit b, be, n, 4); (KKeyExtract b, be, n, 4); (KKeyRandomize b, be, n, 4)]) [128; 160]) [2; 3; 4].
(* masked states: randomize; copy_from_xM for every M (in place when M <> N) *)
Definition req_states (be : mbackend) (max : nat) : list fn_req :=
  flat_map (fun n => (KStRandomize, be, n, max) ::
                     flat_map (fun m => (KStCopy m false, be, n, max) :: (if m =? n then [] else [(KStCopy m true, be, n, max)])) (shares234 max))
           (shares234 max).
Definition req_x1 (be : mbackend) (dx : bool) (max : nat) : list fn_req :=
  flat_map (fun n => [(KStFromX1 dx, be, n, max); (KStToX1 dx, be, n, max)]) (shares234 max).
Definition req_nonce : list fn_req := [(KIncr128, B64, 0, 4); (KSetCounter, B64, 0, 4)].

(* ================================================================== sanity lemmas about the specifications *)
(* (1) the two ways of writing the value of a 32-bit masked word agree, for every share count and all bytes *)
Lemma kval32_is_mval32 :
  forallb (fun n => check_equiv (repeat 8 32) (outs_prog [kval32 n 0]) (outs_prog [mval32 n 0])) [2; 3; 4] = true.
Proof. vm_compute. reflexivity. Qed.

(* (2) masking then unmasking: if the shares of a 64-bit word are S[0] = d xor r1 xor r2 xor r3 and S[j] = rotr_{11 j} r_j,
   its value is d (inputs: d, r1, r2, r3 as 64-bit words; the word's bytes are cut out of them) *)
Definition bytes_le_of (e : wexpr) : list wexpr := map (fun k => WTrunc 8 (WShr (8 * k) e)) (seq 0 8).
Definition masked_image64 : prog :=
  outs_prog (bytes_le_of (xor_all [WIn 0; WIn 1; WIn 2; WIn 3]) ++ bytes_le_of (WRotr 11 (WIn 1)) ++
             bytes_le_of (WRotr 22 (WIn 2)) ++ bytes_le_of (WRotr 33 (WIn 3))).
Lemma mval64_of_masked : check_pipes [64; 64; 64; 64] (PSeq (PRun masked_image64) (PRun (outs_prog [mval64 4 0]))) (PRun (outs_prog [WIn 0])) = true.
Proof. vm_compute. reflexivity. Qed.
(* the same for the 32-bit layout: W[2j] / W[2j+1] = even / odd bits of the share rotated right by 5 j *)
Definition bytes_le32_of (e : wexpr) : list wexpr := map (fun k => WTrunc 8 (WShr (8 * k) e)) (seq 0 4).
Definition masked_image32 : prog :=
  let sh j e := bytes_le32_of (if j =? 0 then WEven e else WRotr (5 * j) (WEven e)) ++ bytes_le32_of (if j =? 0 then WOdd e else WRotr (5 * j) (WOdd e)) in
  outs_prog (sh 0 (xor_all [WIn 0; WIn 1; WIn 2; WIn 3]) ++ sh 1 (WIn 1) ++ sh 2 (WIn 2) ++ sh 3 (WIn 3)).
Lemma mval32_of_masked : check_pipes [64; 64; 64; 64] (PSeq (PRun masked_image32) (PRun (outs_prog [mval32 4 0]))) (PRun (outs_prog [WIn 0])) = true.
Proof. vm_compute. reflexivity. Qed.

(* (3) the increment specification on concrete nonces: full carry, wrap at 2^128, no carry *)
Definition bytes_in (l : list N) : list (list bool) := map (const_bits BoolAlg 8) l.
Lemma incr128_spec_examples :
  run BoolAlg (bytes_in (repeat 255%N 16)) incr128_spec = bytes_in (repeat 0%N 16) /\
  run BoolAlg (bytes_in ([1; 2; 255; 255; 255] ++ repeat 255 11)%N) incr128_spec = bytes_in ([1; 3; 0; 0; 0] ++ repeat 0 11)%N /\
  run BoolAlg (bytes_in (repeat 0%N 15 ++ [254%N])) incr128_spec = bytes_in (repeat 0%N 15 ++ [255%N]) /\
  run BoolAlg (bytes_in (repeat 7%N 14 ++ [128; 255]%N)) incr128_spec = bytes_in (repeat 7%N 14 ++ [129; 0]%N).
Proof. vm_compute. repeat split. Qed.
