(* TRNG mixer: "MIXM <kind> <n> <seed1> <ok1> <seed2> <ok2>" - init, n 64-bit words, three 32-bit words, one 64-bit word, reseed, n words.
   kind: 0 = 64-bit sliced backends, 1 = byte-array (direct-xor / generic) backends, 2 = 32-bit bit-interleaved backend.
   Answer: "<ok1> <ok2> <64-bit words before the reseed> <the three 32-bit words> <64-bit words after the reseed>" (fixed-width hex). *)
open Model
open Drv_core

let rec bits_of_pos = function XH -> [1] | XO p -> 0 :: bits_of_pos p | XI p -> 1 :: bits_of_pos p
let hex_of_n width n =
  let bits = Array.make (4 * width) 0 in
  List.iteri (fun i b -> if i < 4 * width then bits.(i) <- b) (match n with N0 -> [] | Npos p -> bits_of_pos p);
  String.init width (fun k -> let j = width - 1 - k in "0123456789abcdef".[bits.(4*j) + 2 * bits.(4*j+1) + 4 * bits.(4*j+2) + 8 * bits.(4*j+3)])
let kind = function "0" -> KSliced64 | "1" -> KDirectXor | "2" -> KSliced32 | _ -> failwith "kind"

let process (toks : string list) : string =
  match toks with
  | ["MIXM"; k; n; s1; ok1; s2; ok2] ->
    let ((a, b), d) = x_mix_history (kind k) (nat_of_int (int_of_string n)) (bytes_of_hex s1) (bytes_of_hex s2) in
    let cat w l = String.concat "" (List.map (hex_of_n w) l) in
    Printf.sprintf "%s %s %s %s %s" ok1 ok2 (cat 16 a) (cat 8 b) (cat 16 d)
  | _ -> "UNSUPPORTED"

let () = register "MIXM" process
