(* C20: hex codec operations (HEX...) and the ASCON_NO_STL byte_array (BA ...). *)
open Model
open Drv_core

(* which model of the places with a known defect: VERIF_C20_MODEL =
   selected (default: Model/C20Config.v) | fixed | fixedindex (every patch but
   the unshare one) | asis | vec (BA only: the std::vector reference semantics
   vec_step) *)
let mode = try Sys.getenv "VERIF_C20_MODEL" with Not_found -> "selected"
let cfg_fixed_index = { c_fix_cmp = true; c_fix_resize = true; c_fix_hex = true; c_fix_index = true; c_fix_leak = false }
let the_cfg = match mode with "fixed" -> cfg_fixed | "fixedindex" -> cfg_fixed_index | "asis" -> cfg_asis | _ -> cfg_selected

let chars_of_hex = bytes_of_hex
(* a memory cell that was never written prints as "??" *)
let hex_of_cells l =
  if l = [] then "-" else
    String.concat "" (List.map (fun x -> let i = int_of_n x in if i > 255 then "??" else Printf.sprintf "%02x" i) l)
let rec repeat x n = if n <= 0 then [] else x :: repeat x (n - 1)
let bool_of_tok s = (s <> "0")

(* ---- byte_array machine -------------------------------------------------- *)
let ba_state = ref (x_ba_init O)
let ba_abs : (n list option) list ref = ref []     (* vec mode *)
and nvars = ref 0

let cmpop = function
  | "EQ" -> CEq | "NE" -> CNe | "LT" -> CLt | "LE" -> CLe | "GT" -> CGt | "GE" -> CGe | _ -> failwith "cmpop"

let parse_op (t : string list) : op =
  let n s = nat_of_int (int_of_string s) and b s = n_of_int (int_of_string s) in
  match t with
  | ["CTOR"; v] -> OCtor (n v)
  | ["COPY"; v; w] -> OCtorCopy (n v, n w)
  | ["CSIZE"; v; sz; value] -> OCtorSize (n v, n sz, b value)
  | ["CSIZE1"; v; sz] -> OCtorSize (n v, n sz, N0)
  | ["FROMHEX"; v; s] -> OFromHex (n v, chars_of_hex s)
  | ["FROMHEXZ"; v; "NULL"] -> OFromHex (n v, [])
  | ["FROMHEXZ"; v; s] -> OFromHex (n v, x_hex_cstr (chars_of_hex s))
  | ["DTOR"; v] -> ODtor (n v)
  | ["ASSIGN"; v; w] -> OAssign (n v, n w)
  | ["SET"; v; pos; value] -> OSet (n v, n pos, b value)
  | ["GET"; v; pos] -> OGet (n v, n pos)
  | ["GETC"; v; pos] -> OGetC (n v, n pos)
  | ["SIZE"; v] -> OSize (n v)
  | ["CAP"; v] -> OCapacity (n v)
  | ["EMPTY"; v] -> OEmpty (n v)
  | "DATA" :: v :: _ -> OData (n v)
  | ["DATASET"; v; pos; value] -> ODataSet (n v, n pos, b value)
  | "DATAC" :: v :: _ -> ODataC (n v)
  | ["RESERVE"; v; sz] -> OReserve (n v, n sz)
  | ["RESIZE"; v; sz] -> OResize (n v, n sz)
  | ["CLEAR"; v] -> OClear (n v)
  | ["PUSH"; v; value] -> OPush (n v, b value)
  | ["POP"; v] -> OPop (n v)
  | ["SET2"; v; i; x; j; y] -> OSet2 (n v, n i, b x, n j, b y)
  | ["SWAP"; v; i; j] -> OSwap (n v, n i, n j)
  | ["GETHELD"; v; i; j] -> OGetHeld (n v, n i, n j)
  | ["GETHELDC"; v; i; j] -> OGetHeldC (n v, n i, n j)
  | ["HELDPOP"; v; i] -> OHeldPop (n v, n i)
  | "DATAHELDCOPY" :: v :: w :: pos :: value :: _ -> ODataHeldCopy (n v, n w, n pos, b value)
  | "DATAHELDASSIGN" :: v :: w :: pos :: value :: _ -> ODataHeldAssign (n v, n w, n pos, b value)
  | "CDATAHELD" :: v :: i :: j :: value :: _ -> OCDataHeld (n v, n i, n j, b value)
  | [c; v; w] -> OCmp (cmpop c, n v, n w)
  | _ -> failwith "BA op"

let show_result = function
  | RUnit -> "-" | RBool true -> "T" | RBool false -> "F" | RNat k -> string_of_int (int_of_nat k)
  | RByte x -> hex_of_cells [x] | RBytes l -> "B:" ^ hex_of_cells l | RAny -> "*" | RPre -> "PRE" | RUAF -> "UAF"

let dump_full (st : state) : string =
  let h = st.heap_of and vs = st.vars_of in
  let live = List.length (List.filter (fun x -> x <> None) h) in
  let arr = Array.of_list vs in
  let first_with i = let rec go k = if k >= Array.length arr then k else (match arr.(k) with Ptr j when j = i -> k | _ -> go (k + 1)) in go 0 in
  let slot = function
    | Dead -> "D" | Null -> "N"
    | Ptr i -> (match List.nth_opt h (int_of_nat i) with
        | Some (Some b) ->
          let sz = int_of_nat b.b_size in
          Printf.sprintf "P%d/%d/%d/%d/%s%s" (first_with i) (int_of_nat b.b_ref) sz (int_of_nat b.b_cap)
            (hex_of_cells (List.filteri (fun k _ -> k < sz) b.b_data)) (if b.b_leak then "/L" else "")
        | _ -> "DANGLING") in
  String.concat " " (Printf.sprintf "H=%d" live :: List.mapi (fun k s -> Printf.sprintf "%d=%s" k (slot s)) vs)

let dump_abs (a : (n list option) list) : string =
  String.concat " " (List.mapi (fun k s -> Printf.sprintf "%d=%s" k
    (match s with None -> "D" | Some l -> Printf.sprintf "V/%d/%s" (List.length l) (hex_of_cells l))) a)

let ba (t : string list) : string =
  match t with
  | ["RESET"; n] ->
    nvars := int_of_string n;
    ba_state := x_ba_init (nat_of_int !nvars);
    ba_abs := x_ba_abs !ba_state;
    "- | " ^ (if mode = "vec" then dump_abs !ba_abs else dump_full !ba_state)
  | _ ->
    let o = parse_op t in
    if mode = "vec" then begin
      let (a', r) = x_ba_vec_step !ba_abs o in
      ba_abs := a'; show_result r ^ " | " ^ dump_abs a'
    end else begin
      let (st', r) = x_ba_step the_cfg !ba_state o in
      ba_state := st'; show_result r ^ " | " ^ dump_full st'
    end

(* ---- hex ----------------------------------------------------------------- *)
let fixed_hex = the_cfg.c_fix_hex
let show_bytes l = Printf.sprintf "%d %s" (List.length l) (hex_of_cells l)

let process (toks : string list) : string =
  match toks with
  | "BA" :: rest -> ba rest
  (* HEXENC outlen in upper : buffer of outlen cells filled with ee *)
  | ["HEXENC"; outlen; inp; upper] ->
    let ol = int_of_string outlen in
    let (r, mem) = x_hex_to_hex (repeat (n_of_int 0xEE) ol) (nat_of_int ol) (bytes_of_hex inp) (bool_of_tok upper) in
    Printf.sprintf "%d %s" (int_of_z r) (hex_of_cells mem)
  | ["HEXDEC"; outlen; s] ->
    let ol = int_of_string outlen in
    let (r, mem) = x_hex_from_hex (repeat (n_of_int 0xEE) ol) (nat_of_int ol) (chars_of_hex s) in
    Printf.sprintf "%d %s" (int_of_z r) (hex_of_cells mem)
  (* encode with the C function into an exact buffer, decode what was written *)
  | ["HEXRT"; inp; upper] ->
    let b = bytes_of_hex inp in
    let n = List.length b in
    let (r, mem) = x_hex_to_hex (repeat (n_of_int 0xEE) (2 * n + 1)) (nat_of_int (2 * n + 1)) b (bool_of_tok upper) in
    let s = List.filteri (fun k _ -> k < int_of_z r) mem in
    let (r2, mem2) = x_hex_from_hex (repeat (n_of_int 0xEE) n) (nat_of_int n) s in
    Printf.sprintf "%d %d %s" (int_of_z r) (int_of_z r2) (hex_of_cells mem2)
  | ["HEXCPP"; "PL"; s] -> show_bytes (x_hex_cpp_from_hex fixed_hex (chars_of_hex s))
  | ["HEXCPP"; "ST"; s] -> show_bytes (x_hex_cpp_from_hex_string fixed_hex (chars_of_hex s))
  | ["HEXCPP"; "PZ"; "NULL"] -> show_bytes (x_hex_cpp_from_hex_z fixed_hex None)
  | ["HEXCPP"; "PZ"; s] -> show_bytes (x_hex_cpp_from_hex_z fixed_hex (Some (chars_of_hex s @ [N0])))
  | "HEXCPPENC" :: _ :: inp :: upper :: _ ->
    show_bytes (x_hex_cpp_to_hex (bytes_of_hex inp) (upper = "1"))
  (* the specification functions, for self-checks of the driver *)
  | ["HEXSPEC"; "DEC"; s] -> (match x_hex_spec_decode (chars_of_hex s) with None -> "NONE" | Some b -> "SOME " ^ show_bytes b)
  | ["HEXSPEC"; "ENC"; inp; upper] -> show_bytes (x_hex_spec_encode (bool_of_tok upper) (bytes_of_hex inp))
  | _ -> "UNSUPPORTED"

let () = List.iter (fun n -> register n process) ["BA"; "HEXENC"; "HEXDEC"; "HEXRT"; "HEXCPP"; "HEXCPPENC"; "HEXSPEC"]
