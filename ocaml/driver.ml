(* Correspondence driver: reads one operation per line on stdin, runs the
   model extracted from Coq (Model = model.ml), prints one canonical result
   line per operation.  The C/C++ harness reads the same file; `check` diffs
   the two outputs. *)
open Model

(* ---- conversions between OCaml ints / strings and the extracted types -- *)
let rec pos_of_int i = if i = 1 then XH else if i land 1 = 1 then XI (pos_of_int (i lsr 1)) else XO (pos_of_int (i lsr 1))
let n_of_int i = if i = 0 then N0 else Npos (pos_of_int i)
let rec int_of_pos = function XH -> 1 | XO p -> 2 * int_of_pos p | XI p -> 2 * int_of_pos p + 1
let int_of_n = function N0 -> 0 | Npos p -> int_of_pos p
let rec nat_of_int i = if i = 0 then O else S (nat_of_int (i - 1))
let rec int_of_nat = function O -> 0 | S n -> 1 + int_of_nat n
let int_of_z = function Z0 -> 0 | Zpos p -> int_of_pos p | Zneg p -> - (int_of_pos p)

let hexval c = match c with
  | '0'..'9' -> Char.code c - 48 | 'a'..'f' -> Char.code c - 87 | 'A'..'F' -> Char.code c - 55
  | _ -> failwith "bad hex"
let bytes_of_hex s =
  if s = "-" then [] else begin
    let n = String.length s / 2 in
    let rec go i acc = if i < 0 then acc else go (i - 1) (n_of_int (hexval s.[2*i] * 16 + hexval s.[2*i+1]) :: acc) in
    go (n - 1) [] end
let hex_of_bytes l =
  if l = [] then "-" else begin
    let b = Buffer.create 64 in
    List.iter (fun x -> Buffer.add_string b (Printf.sprintf "%02x" (int_of_n x))) l;
    Buffer.contents b end
let opt_bytes s = if s = "NULL" then None else Some (bytes_of_hex s)
let split_chunks s = if s = "" then [] else List.map bytes_of_hex (String.split_on_char ',' s)

let variant = function
  | "128" -> a128 | "128a" -> a128a | "80pq" -> a80pq | _ -> failwith "variant"

(* ---- object slots ------------------------------------------------------ *)
type obj =
  | Inc of aead_variant * inc_state

let slots : (int, obj) Hashtbl.t = Hashtbl.create 16
let get_inc s = match Hashtbl.find slots s with Inc (v, st) -> (v, st)

let process (toks : string list) : string =
  match toks with
  | ["PERM"; r; st] -> hex_of_bytes (x_perm (nat_of_int (int_of_string r)) (bytes_of_hex st))
  | ["AE"; v; "ENC"; k; n; ad; pt] | ["AEM"; v; "ENC"; k; n; ad; pt] | "AEC" :: v :: "ENC" :: k :: n :: ad :: pt :: _ ->
    let (c, clen) = x_aead_encrypt (variant v) (bytes_of_hex k) (bytes_of_hex n) (bytes_of_hex ad) (bytes_of_hex pt) in
    Printf.sprintf "%s %d" (hex_of_bytes c) (int_of_nat clen)
  | "AEC" :: v :: "DEC" :: k :: n :: ad :: ct :: _ :: "BA" :: _ ->
    (* C++ byte_array overload: the output array is emptied on failure *)
    (match x_aead_decrypt (variant v) (bytes_of_hex k) (bytes_of_hex n) (bytes_of_hex ad) (bytes_of_hex ct) with
     | DecShort -> "SHORT"
     | DecDone (r, m) -> if int_of_z r = 0 then "0 " ^ hex_of_bytes m else "-1 BA")
  | ["AE"; v; "DEC"; k; n; ad; ct] | ["AEM"; v; "DEC"; k; n; ad; ct] | "AEC" :: v :: "DEC" :: k :: n :: ad :: ct :: _ ->
    (match x_aead_decrypt (variant v) (bytes_of_hex k) (bytes_of_hex n) (bytes_of_hex ad) (bytes_of_hex ct) with
     | DecShort -> "SHORT"
     | DecDone (r, m) -> Printf.sprintf "%d %s" (int_of_z r) (hex_of_bytes m))
  | ["AESPEC"; v; "ENC"; k; n; ad; pt] ->
    hex_of_bytes (x_aead_spec_encrypt (variant v) (bytes_of_hex k) (bytes_of_hex n) (bytes_of_hex ad) (bytes_of_hex pt))
  | ["AESPEC"; v; "DEC"; k; n; ad; ct] ->
    (match x_aead_spec_decrypt (variant v) (bytes_of_hex k) (bytes_of_hex n) (bytes_of_hex ad) (bytes_of_hex ct) with
     | None -> "NONE" | Some m -> "SOME " ^ hex_of_bytes m)
  | ["AI"; s; v; "INIT"; n; k] ->
    let v = variant v in
    Hashtbl.replace slots (int_of_string s) (Inc (v, x_inc_init v (opt_bytes n) (opt_bytes k))); "OK"
  | ["AI"; s; "REINIT"; n; k] ->
    let s = int_of_string s in let (v, st) = get_inc s in
    let n' = if n = "SELF" then Some st.i_nonce else opt_bytes n in
    Hashtbl.replace slots s (Inc (v, x_inc_reinit v st n' (opt_bytes k))); "OK"
  | ["AI"; s; "START"; ad] ->
    let s = int_of_string s in let (v, st) = get_inc s in
    Hashtbl.replace slots s (Inc (v, x_inc_start v st (bytes_of_hex ad))); "OK"
  | "AI" :: s :: "ENCB" :: d :: _ ->
    let s = int_of_string s in let (v, st) = get_inc s in
    let (st', o) = x_inc_encrypt_block v st (bytes_of_hex d) in
    Hashtbl.replace slots s (Inc (v, st')); hex_of_bytes o
  | "AI" :: s :: "DECB" :: d :: _ ->
    let s = int_of_string s in let (v, st) = get_inc s in
    let (st', o) = x_inc_decrypt_block v st (bytes_of_hex d) in
    Hashtbl.replace slots s (Inc (v, st')); hex_of_bytes o
  | ["AI"; s; "ENCF"] ->
    let s = int_of_string s in let (v, st) = get_inc s in
    let (st', t) = x_inc_encrypt_finalize v st in
    Hashtbl.replace slots s (Inc (v, st')); hex_of_bytes t
  | ["AI"; s; "DECF"; t] ->
    let s = int_of_string s in let (v, st) = get_inc s in
    let (st', r) = x_inc_decrypt_finalize v st (bytes_of_hex t) in
    Hashtbl.replace slots s (Inc (v, st')); string_of_int (int_of_z r)
  | ["AI"; s; "FREE"] -> Hashtbl.remove slots (int_of_string s); "OK"
  | "TRNG" :: _ -> "OK"
  | ["AI"; s; "NONCE"] ->
    let (_, st) = get_inc (int_of_string s) in hex_of_bytes st.i_nonce
  | _ -> "UNSUPPORTED"

let () =
  try
    while true do
      let line = input_line stdin in
      if String.length line > 0 && line.[0] <> '#' then begin
        let toks = List.filter (fun s -> s <> "") (String.split_on_char ' ' line) in
        let r = try process toks with Not_found -> "NOSLOT" | Failure m -> "ERR " ^ m in
        print_string r; print_newline ()
      end
    done
  with End_of_file -> ()
