(* PRF / MAC / HMAC / KMAC / KDF / HKDF / PBKDF2 operations. *)
open Model
open Drv_core

let ni s = n_of_int (int_of_string s)
let nat s = nat_of_int (int_of_string s)
let ints s = if s = "-" then [] else List.map int_of_string (String.split_on_char ',' s)
let hv = function "hmac" | "hkdf" | "kmac" | "kdf" -> vxof | "hmaca" | "hkdfa" | "kmaca" | "kdfa" -> vxofa | _ -> failwith "variant"

let squeeze_all v st outs =
  let (_, acc) = List.fold_left (fun (st, acc) n -> let (st', o) = x_xof_squeeze v st (nat_of_int n) in (st', acc @ [hex_of_bytes o])) (st, []) outs in
  String.concat "," acc

(* a trailing RE:<seed> token asks the implementation to reach the operation through <op>_reinit after a prior
   history on the same object; the model's answer is the same by definition (reinit = fresh init).
   A trailing AK token (HM / HMO) asks the implementation to write the digest over the key buffer; the model passes by value *)
let rec process (toks : string list) : string =
  let n = List.length toks in
  if n > 0 && (let l = List.nth toks (n - 1) in (String.length l > 3 && String.sub l 0 3 = "RE:") || (n > 4 && l = "AK")) then
    process (List.filteri (fun i _ -> i < n - 1) toks)
  else
  match toks with
  | ["PRF"; k; l; m; n] -> hex_of_bytes (x_prf_oneshot (bytes_of_hex k) (ni l) (bytes_of_hex m) (nat n))
  | ["PRFSPEC"; k; l; m; n] -> hex_of_bytes (x_spec_prf (bytes_of_hex k) (ni l) (bytes_of_hex m) (nat n))
  | ["MAC"; k; m] -> hex_of_bytes (x_mac (bytes_of_hex k) (bytes_of_hex m))
  | ["MACV"; t; k; m] -> string_of_int (int_of_z (x_mac_verify (bytes_of_hex t) (bytes_of_hex k) (bytes_of_hex m)))
  | ["PRFS"; k; m; n] -> (match x_prf_short (bytes_of_hex k) (bytes_of_hex m) (nat n) with None -> "ERR" | Some o -> hex_of_bytes o)
  | ["PRFSL"; k; m; il; ol] ->
    (* declared lengths may exceed any buffer: decimal strings of more than 2 digits are > 16 *)
    let small x = String.length x <= 2 && int_of_string x <= 16 in
    if not (small il && small ol) then "ERR"
    else (match x_prf_short (bytes_of_hex k) (bytes_of_hex m) (nat ol) with None -> "ERR" | Some o -> "ACCEPTED " ^ hex_of_bytes o)
  | ["PRFSSPEC"; k; m; n] -> (match x_spec_prf_short (bytes_of_hex k) (bytes_of_hex m) (nat n) with None -> "ERR" | Some o -> hex_of_bytes o)
  | ["HM"; v; k; chunks] -> hex_of_bytes (x_hmac_run (hv v) (bytes_of_hex k) (split_chunks chunks))
  | ["HMO"; v; k; m] -> hex_of_bytes (x_hmac_run (hv v) (bytes_of_hex k) [bytes_of_hex m])
  | ["HMSPEC"; v; k; m] -> hex_of_bytes (x_spec_hmac (hv v) (bytes_of_hex k) (bytes_of_hex m))
  | ["KM"; v; k; custom; l; chunks; outs] ->
    let v = hv v in
    let st = List.fold_left (x_xof_absorb v) (x_kmac_init v (bytes_of_hex k) (bytes_of_hex custom) (ni l)) (split_chunks chunks) in
    squeeze_all v st (ints outs)
  | ["KMO"; v; k; m; custom; n] ->
    let v = hv v in
    let st = x_xof_absorb v (x_kmac_init v (bytes_of_hex k) (bytes_of_hex custom) (ni n)) (bytes_of_hex m) in
    squeeze_all v st [int_of_string n]
  | ["KMSPEC"; v; k; m; custom; l; n] -> hex_of_bytes (x_spec_kmac (hv v) (bytes_of_hex k) (bytes_of_hex m) (bytes_of_hex custom) (ni l) (nat n))
  | ["KD"; v; k; custom; l; outs] -> let v = hv v in squeeze_all v (x_kdf_init v (bytes_of_hex k) (bytes_of_hex custom) (ni l)) (ints outs)
  | ["KDO"; v; k; custom; n] -> let v = hv v in squeeze_all v (x_kdf_init v (bytes_of_hex k) (bytes_of_hex custom) (ni n)) [int_of_string n]
  | ["KDSPEC"; v; k; custom; l; n] -> hex_of_bytes (x_spec_kdf (hv v) (bytes_of_hex k) (bytes_of_hex custom) (ni l) (nat n))
  | ["HK"; v; key; salt; info; reqs] ->
    let v = hv v in
    let st0 = x_hkdf_extract v (bytes_of_hex key) (bytes_of_hex salt) in
    let (_, acc) = List.fold_left (fun (st, acc) n ->
        let ((st', o), r) = x_hkdf_expand v st (bytes_of_hex info) (nat_of_int n) in
        (st', acc @ [Printf.sprintf "%d:%s" (int_of_z r) (hex_of_bytes o)])) (st0, []) (ints reqs) in
    String.concat "," acc
  | ["HKO"; v; key; salt; info; n] ->
    (match x_hkdf (hv v) (bytes_of_hex key) (bytes_of_hex salt) (bytes_of_hex info) (nat n) with None -> "ERR" | Some o -> hex_of_bytes o)
  | ["HKSPEC"; v; key; salt; info; n] ->
    let okm = x_spec_hkdf_okm (hv v) (bytes_of_hex salt) (bytes_of_hex key) (bytes_of_hex info) (nat_of_int ((int_of_string n + 31) / 32)) in
    let rec take n l = if n = 0 then [] else match l with [] -> [] | x :: t -> x :: take (n - 1) t in
    hex_of_bytes (take (int_of_string n) okm)
  | ["PB"; "xof"; pw; salt; c; n] -> hex_of_bytes (x_pbkdf2 (bytes_of_hex pw) (bytes_of_hex salt) (nat c) (nat n))
  | ["PB"; "hmac"; pw; salt; c; n] -> hex_of_bytes (x_pbkdf2_hmac (bytes_of_hex pw) (bytes_of_hex salt) (nat c) (nat n))
  | ["PBT"; kind; pw; salt; c; n; _ms] ->
    (* the model's answer for a count the call cannot complete in the allotted time (decimal strings of 10 digits and more, i.e. >= 10^9):
       still iterating.  For small counts the call is done at once and returns the PB answer. *)
    if String.length c >= 10 then "TIMEOUT" else "DONE " ^ process ["PB"; kind; pw; salt; c; n]
  | ["PBSPEC"; "xof"; pw; salt; c; n] -> hex_of_bytes (x_spec_pbkdf2 (bytes_of_hex pw) (bytes_of_hex salt) (nat c) (nat n))
  | ["PBSPEC"; "hmac"; pw; salt; c; n] -> hex_of_bytes (x_spec_pbkdf2_hmac (bytes_of_hex pw) (bytes_of_hex salt) (nat c) (nat n))
  | _ -> "UNSUPPORTED"

let () = List.iter (fun n -> register n process)
    ["PRF"; "PRFSPEC"; "MAC"; "MACV"; "PRFS"; "PRFSL"; "PRFSSPEC"; "HM"; "HMO"; "HMSPEC"; "KM"; "KMO"; "KMSPEC"; "KD"; "KDO"; "KDSPEC";
     "HK"; "HKO"; "HKSPEC"; "PB"; "PBT"; "PBSPEC"]
