(* PRNG operations "RN": one generator object, a scripted system source (TRNG SYS ...) and scripted storage. *)
open Model
open Drv_core

let sys : (n list * bool) list ref = ref []
let gen : prng_state option ref = ref None
let calls = ref 0
let zi i = if i = 0 then Z0 else if i > 0 then Zpos (pos_of_int i) else Zneg (pos_of_int (-i))

(* default answers of the harness's substitute when the script is empty are pseudo-random, so every
   session must script exactly as many answers as it consumes; the model treats an empty script as an error *)
let take_sys () = let before = List.length !sys in fun after -> calls := !calls + (before - List.length after); sys := after

let state_line (s : prng_state) =
  Printf.sprintf "%d %d %d %s" (int_of_nat s.r_counter) (int_of_nat s.r_xof.x_count) (if s.r_xof.x_mode then 1 else 0) (hex_of_bytes s.r_xof.x_st)

(* RN SAVE|LOAD NULL | <size> <read result> <read data> <write result> [<page_size> <erase_size> <address> <partial_writes>] *)
let storage_of toks =
  let cb size rr rdata wr = { st_size = nat_of_int (int_of_string size); st_read = (zi (int_of_string rr), bytes_of_hex rdata); st_write = zi (int_of_string wr) } in
  match toks with
  | ["NULL"] -> None
  | [size; rr; rdata; wr] -> Some { nv_page = nat_of_int 1; nv_erase = nat_of_int 0; nv_addr = nat_of_int 0; nv_partial = true; nv_cb = cb size rr rdata wr }
  | [size; rr; rdata; wr; page; erase; addr; partial] ->
    Some { nv_page = nat_of_int (int_of_string page); nv_erase = nat_of_int (int_of_string erase); nv_addr = nat_of_int (int_of_string addr);
           nv_partial = (partial <> "0"); nv_cb = cb size rr rdata wr }
  | _ -> failwith "storage"

(* the callback calls in the harness's notation *)
let call_str = function
  | CbRead (off, len) -> Printf.sprintf " R:%d:%d" (int_of_nat off) (int_of_nat len)
  | CbWrite (off, len, d, e) -> Printf.sprintf " W:%d:%d:%s:%s" (int_of_nat off) (int_of_nat len) (if e then "1" else "0") (hex_of_bytes d)

let process (toks : string list) : string =
  match toks with
  | ["TRNG"; "SYS"; b; ok] -> sys := !sys @ [(bytes_of_hex b, ok <> "0")]; "OK"
  | ["TRNG"; "SYSCLEAR"] -> sys := []; calls := 0; "OK"
  | "TRNG" :: _ -> "OK"
  | ["RN"; "INIT"] ->
    let upd = take_sys () in
    let ((s, ok), sys') = x_prng_init !sys in upd sys'; gen := Some s; if ok then "1" else "0"
  | ["RN"; "RESEED"] ->
    (match !gen with None -> "NOSLOT" | Some s ->
      let upd = take_sys () in let ((s', ok), sys') = x_prng_reseed s !sys in upd sys'; gen := Some s'; if ok then "1" else "0")
  | ["RN"; "FETCH"; n] ->
    (match !gen with None -> "NOSLOT" | Some s ->
      let upd = take_sys () in let ((s', o), sys') = x_prng_fetch s (nat_of_int (int_of_string n)) !sys in upd sys'; gen := Some s'; hex_of_bytes o)
  | ["RN"; "FEED"; d] -> (match !gen with None -> "NOSLOT" | Some s -> gen := Some (x_prng_feed s (bytes_of_hex d)); "OK")
  | "RN" :: ("SAVE" | "LOAD" as op) :: st ->
    (match !gen with None -> "NOSLOT" | Some s ->
      let upd = take_sys () in
      let (((s', r), w), sys') = (if op = "SAVE" then x_prng_save else x_prng_load) s (storage_of st) !sys in
      upd sys'; gen := Some s';
      Printf.sprintf "%d calls=%d%s" (int_of_z r) (List.length w) (String.concat "" (List.map call_str w)))
  | ["RN"; "STATE"] -> (match !gen with None -> "NOSLOT" | Some s -> state_line s)
  | ["RN"; "CALLS"] -> string_of_int !calls
  | ["RN"; "FREE"] -> gen := None; "OK"
  | ["RN"; "ONESHOT"; n] ->
    let upd = take_sys () in
    let ((o, r), sys') = x_random_oneshot (nat_of_int (int_of_string n)) !sys in upd sys';
    Printf.sprintf "%d %s" (int_of_z r) (hex_of_bytes o)
  | _ -> "UNSUPPORTED"

let () = List.iter (fun n -> register n process) ["RN"; "TRNG"]
