(* Main loop of the correspondence driver: one operation per line on stdin,
   one canonical result line on stdout. *)
open Drv_core
let () =
  try
    while true do
      let line = input_line stdin in
      if String.length line > 0 && line.[0] <> '#' then begin
        let toks = List.filter (fun s -> s <> "") (String.split_on_char ' ' line) in
        let r = match toks with
          | [] -> ""
          | ["HAS"; op] -> if Hashtbl.mem handlers op then "YES" else "NO"
          | op :: _ ->
            (match Hashtbl.find_opt handlers op with
             | None -> "UNSUPPORTED"
             | Some h -> (try h toks with Not_found -> "NOSLOT" | Failure m -> "ERR " ^ m | Invalid_argument m -> "ERR " ^ m)) in
        print_string r; print_newline ()
      end
    done
  with End_of_file -> ()
