(* Hash / XOF family: object-slot machine "X", one-shot "XO", spec "XSPEC". *)
open Model
open Drv_core

let xvariant = function
  | "xof" | "hash" -> vxof | "xofa" | "hasha" -> vxofa | "prf" -> vprf | _ -> failwith "xvariant"
let is_hash s = (s = "hash" || s = "hasha")

let xslots : (int, xof_variant * xof_state) Hashtbl.t = Hashtbl.create 16

let process (toks : string list) : string =
  match toks with
  | ["XO"; v; d] ->
    let xv = xvariant v in
    let s0 = if is_hash v then x_xof_init_fixed xv (n_of_int 32) else x_xof_init xv in
    let (_, o) = x_xof_squeeze xv (x_xof_absorb xv s0 (bytes_of_hex d)) (nat_of_int 32) in hex_of_bytes o
  | ["XSPEC"; v; l; d; n] -> hex_of_bytes (x_xof_spec (xvariant v) (n_of_int (int_of_string l)) (bytes_of_hex d) (nat_of_int (int_of_string n)))
  | ["XSPECC"; v; name; custom; l; d; n] ->
    hex_of_bytes (x_cxof_spec (xvariant v) (bytes_of_hex name) (bytes_of_hex custom) (n_of_int (int_of_string l)) (bytes_of_hex d) (nat_of_int (int_of_string n)))
  | "X" :: s :: rest ->
    let s = int_of_string s in
    (match rest with
     | [v; ("INIT" | "REINIT")] ->
       let xv = xvariant v in
       Hashtbl.replace xslots s (xv, if is_hash v then x_xof_init_fixed xv (n_of_int 32) else x_xof_init xv); "OK"
     | [v; ("INITK" | "REINITK"); k; l] ->
       Hashtbl.replace xslots s (xvariant v, x_prf_init (bytes_of_hex k) (n_of_int (int_of_string l))); "OK"
     | [v; ("INITF" | "REINITF"); l] ->
       let xv = xvariant v in Hashtbl.replace xslots s (xv, x_xof_init_fixed xv (n_of_int (int_of_string l))); "OK"
     | [v; ("INITC" | "REINITC"); name; custom; l] ->
       let xv = xvariant v in
       Hashtbl.replace xslots s (xv, x_xof_init_custom xv (opt_bytes name) (bytes_of_hex custom) (n_of_int (int_of_string l))); "OK"
     | ["ABS"; d] -> let (xv, st) = Hashtbl.find xslots s in Hashtbl.replace xslots s (xv, x_xof_absorb xv st (bytes_of_hex d)); "OK"
     | ["SQZ"; n] ->
       let (xv, st) = Hashtbl.find xslots s in
       let (st', o) = x_xof_squeeze xv st (nat_of_int (int_of_string n)) in
       Hashtbl.replace xslots s (xv, st'); hex_of_bytes o
     | ["PAD"] -> let (xv, st) = Hashtbl.find xslots s in Hashtbl.replace xslots s (xv, x_xof_pad xv st); "OK"
     | ["COPY"; d] -> let e = Hashtbl.find xslots s in Hashtbl.replace xslots (int_of_string d) e; "OK"
     | ["FREE"] -> Hashtbl.remove xslots s; "OK"
     | ["DUMP"] ->
       let (_, st) = Hashtbl.find xslots s in
       Printf.sprintf "%d %d %s" (int_of_nat st.x_count) (if st.x_mode then 1 else 0) (hex_of_bytes st.x_st)
     | _ -> "UNSUPPORTED")
  | _ -> "UNSUPPORTED"

let () = List.iter (fun n -> register n process) ["X"; "XO"; "XSPEC"; "XSPECC"]
