(* C19: the command-line-tool model (coq/Model/Clim.v) run on one scenario per
   line.  The cryptography, abstract in the model, is supplied by the oracle
   program harness/c19_oracle.c (linked with the library built from /repo's
   working tree), reached through a pair of FIFOs (no Unix library needed):
   environment C19_ORACLE = path of the oracle executable.

     C19DEF name hex                           remember a blob for this session
     CRYPT cfg bufsiz E|D P:pw|K:keyfile files fs faults rseed
     GEN   cfg keyfile fs faults rseed
     SUM   cfg bufsiz alg H|C files fs faults
     ARGS  cfg bufsiz fx closes E|D|N pw out inputs tty stdin fs faults rseed        main() of asconcrypt after getopt
           fx: two digits; first 1 = the tree tests close(2) of an output descriptor (fixes/C19-close-errors.patch),
           second 1 = a typed password of 1024 bytes or more is refused (fixes/C19-typed-password-length.patch); 00 = as it is;
           closes: "." or k,k,... = those closes of a write descriptor report an error;  E|D|N: -e, -d, neither;
           pw: P:hex (-p), K:hex (-k), B:hex:hex (both), T (neither: the terminal);  out: "." or O:hex (-o);
           inputs: "." or hex,hex,...;  tty: N (not a terminal) or T:r,r,... with r = hex or NULL (getpass results);
           stdin: hex
     GENC  cfg cchk closes keyfile fs faults rseed                                   asconcrypt -g with the close result
     SUMV  cfg bufsiz alg H|C files|. fs faults                                      asconsum; "." = no FILE arguments
   cfg: S (shipped) or F (fixed);  files: in:out,in:out (CRYPT) / a,b,c (SUM), names in hex;
   fs: name=content,... ("." empty file system); content is hex, empty, @blob, @blob^off:xx
   (xor xx into byte off) or @blob<n (first n bytes);
   faults: "." or o<k>, r<k>f, r<k>s<n>, w<k>f, w<k>s<n>, g<k>, l<k> separated by commas.
   Answer: exit=<n> err=<classes> out=<hex> fs=<changes> cnt=<open,read,write,rand,gets> flg=<the same, 0/1>
   where fs lists +name=hex for files created or changed and -name for files removed. *)
open Model
open Drv_core

(* ---- the oracle co-process -------------------------------------------- *)
let chan : (out_channel * in_channel) option ref = ref None
let fifo_base = ref ""
let cache : (string, string) Hashtbl.t = Hashtbl.create 1024

let connect () =
  match !chan with
  | Some c -> c
  | None ->
    let exe = try Sys.getenv "C19_ORACLE" with Not_found -> failwith "C19_ORACLE not set" in
    let base = Filename.temp_file "c19o" "" in
    let req = base ^ ".req" and rsp = base ^ ".rsp" in
    if Sys.command (Printf.sprintf "mkfifo %s %s && (%s < %s > %s &)" (Filename.quote req) (Filename.quote rsp)
                      (Filename.quote exe) (Filename.quote req) (Filename.quote rsp)) <> 0 then failwith "oracle start";
    let oc = open_out req in
    let ic = open_in rsp in
    fifo_base := base;
    at_exit (fun () -> (try close_out oc with _ -> ()); List.iter (fun f -> try Sys.remove f with _ -> ()) [req; rsp; base]);
    chan := Some (oc, ic); (oc, ic)

let ask (q : string) : string =
  match Hashtbl.find_opt cache q with
  | Some a -> a
  | None ->
    let (oc, ic) = connect () in
    output_string oc q; output_char oc '\n'; flush oc;
    let a = input_line ic in
    if a = "ERR" then failwith ("oracle refused: " ^ (if String.length q > 80 then String.sub q 0 80 else q));
    if Hashtbl.length cache > 4000 then Hashtbl.reset cache;
    Hashtbl.replace cache q a; a

let hx = hex_of_bytes
let chunks_str (l : string list) = if l = [] then "." else String.concat "," (List.rev l)

(* abstract state of the incremental AEAD / digests: the history, replayed by the oracle *)
type ast = { ak : string; an : string; aad : string; ahist : string list }
type hst = { halg : int; hhist : string list }

let pbkdf2 pw salt = bytes_of_hex (ask (Printf.sprintf "PBKDF2 %s %s" (hx pw) (hx salt)))
let siv_enc k n ad m = bytes_of_hex (ask (Printf.sprintf "SIVENC %s %s %s %s" (hx k) (hx n) (hx ad) (hx m)))
let siv_dec k n ad c =
  let a = ask (Printf.sprintf "SIVDEC %s %s %s %s" (hx k) (hx n) (hx ad) (hx c)) in
  if a = "NONE" then None else Some (bytes_of_hex a)
let a_start k n ad = { ak = hx k; an = hx n; aad = hx ad; ahist = [] }
let a_step op st d =
  let h = hx d in
  let a = ask (Printf.sprintf "%s %s %s %s %s %s" op st.ak st.an st.aad (chunks_str st.ahist) h) in
  ({ st with ahist = h :: st.ahist }, bytes_of_hex a)
let a_encb st d = a_step "AENC" st d
let a_decb st d = a_step "ADEC" st d
let a_encf st = bytes_of_hex (ask (Printf.sprintf "AENCF %s %s %s %s" st.ak st.an st.aad (chunks_str st.ahist)))
let a_decf st tag = ask (Printf.sprintf "ADECF %s %s %s %s %s" st.ak st.an st.aad (chunks_str st.ahist) (hx tag)) = "1"
let h_init alg = { halg = int_of_nat alg; hhist = [] }
let h_upd st d = { st with hhist = hx d :: st.hhist }
let h_fin st = bytes_of_hex (ask (Printf.sprintf "HASH %d %s" st.halg (chunks_str st.hhist)))

(* ---- scenario parsing --------------------------------------------------- *)
let blobs : (string, string) Hashtbl.t = Hashtbl.create 16     (* name -> raw bytes as an OCaml string *)

let raw_of_hex s =
  if s = "-" || s = "" then "" else
    String.init (String.length s / 2) (fun i -> Char.chr (hexval s.[2*i] * 16 + hexval s.[2*i+1]))
let bytes_of_raw (s : string) = List.init (String.length s) (fun i -> n_of_int (Char.code s.[i]))

let content_of (s : string) : string =
  if s <> "" && s.[0] = '@' then begin
    let body = String.sub s 1 (String.length s - 1) in
    match String.index_opt body '^', String.index_opt body '<' with
    | Some i, _ ->
      let b = Bytes.of_string (Hashtbl.find blobs (String.sub body 0 i)) in
      let spec = String.sub body (i + 1) (String.length body - i - 1) in
      let j = String.index spec ':' in
      let off = int_of_string (String.sub spec 0 j) in
      let x = int_of_string ("0x" ^ String.sub spec (j + 1) (String.length spec - j - 1)) in
      Bytes.set b off (Char.chr (Char.code (Bytes.get b off) lxor x)); Bytes.to_string b
    | None, Some i ->
      let b = Hashtbl.find blobs (String.sub body 0 i) in
      String.sub b 0 (int_of_string (String.sub body (i + 1) (String.length body - i - 1)))
    | None, None -> Hashtbl.find blobs body
  end else raw_of_hex s

let parse_fs (s : string) : (string * string) list =
  if s = "." then [] else
    List.map (fun e -> let i = String.index e '=' in
               (raw_of_hex (String.sub e 0 i), content_of (String.sub e (i + 1) (String.length e - i - 1))))
      (String.split_on_char ',' s)

type 'a fl = { fo : int list; fr : (int * 'a) list; fw : (int * 'a) list; fg : int list; fl : int list }
let parse_faults (s : string) =
  let z = { fo = []; fr = []; fw = []; fg = []; fl = [] } in
  if s = "." then z else
    List.fold_left (fun a e ->
        let c = e.[0] in
        let rest = String.sub e 1 (String.length e - 1) in
        let num t = int_of_string t in
        let kind () =
          match String.index_opt rest 'f', String.index_opt rest 's' with
          | Some i, _ -> (num (String.sub rest 0 i), XFAIL)
          | None, Some i -> (num (String.sub rest 0 i), XSHORT (nat_of_int (num (String.sub rest (i + 1) (String.length rest - i - 1)))))
          | None, None -> (num rest, XFAIL) in
        match c with
        | 'o' -> { a with fo = num rest :: a.fo }
        | 'g' -> { a with fg = num rest :: a.fg }
        | 'l' -> { a with fl = num rest :: a.fl }
        | 'r' -> { a with fr = kind () :: a.fr }
        | 'w' -> { a with fw = kind () :: a.fw }
        | _ -> failwith "fault class") z (String.split_on_char ',' s)

let oracle_of f (rseed : string) =
  { o_open = (fun k -> List.mem (int_of_nat k) f.fo);
    o_read = (fun k -> try List.assoc (int_of_nat k) f.fr with Not_found -> XOK);
    o_write = (fun k -> try List.assoc (int_of_nat k) f.fw with Not_found -> XOK);
    o_rand = (fun k n -> let k = int_of_nat k in
               if List.mem k f.fg then None
               else Some (bytes_of_hex (ask (Printf.sprintf "RANDOM %s %d %d" rseed k (int_of_nat n)))));
    o_gets = (fun k -> List.mem (int_of_nat k) f.fl) }

let emsg_str = function
  | EPerror -> "perror" | EFatalRandom -> "fatal-random" | EBadFormat -> "bad-format" | EBadPassword -> "bad-password"
  | ETruncated -> "truncated" | ECorrupt -> "corrupt" | EPwTooLong -> "pw-too-long" | EPwNul -> "pw-nul"
  | ENoLines -> "no-lines" | EWarnFormat n -> Printf.sprintf "warn-format:%d" (int_of_nat n)
  | EWarnMismatch n -> Printf.sprintf "warn-mismatch:%d" (int_of_nat n)
  | EWarnRead n -> Printf.sprintf "warn-read:%d" (int_of_nat n)
  | EUsage -> "usage" | EBothPK -> "both-p-k" | EOneInput -> "one-input" | EDirection -> "direction"
  | ENoTerminal -> "no-terminal" | EPwMismatch -> "pw-mismatch"

let raw_of_bytes (l : n list) : string =
  let b = Buffer.create 64 in List.iter (fun x -> Buffer.add_char b (Char.chr (int_of_n x))) l; Buffer.contents b
let hex_of_raw (s : string) : string =
  if s = "" then "-" else begin
    let b = Buffer.create (2 * String.length s) in
    String.iter (fun c -> Buffer.add_string b (Printf.sprintf "%02x" (Char.code c))) s; Buffer.contents b end

let answer (fs0 : (string * string) list) (w, ex) : string =
  (* the model's file system as name -> content, first binding wins (fs_get) *)
  let final = List.fold_left (fun acc (p, c) -> let p = raw_of_bytes p in
                               if List.mem_assoc p acc then acc else (p, raw_of_bytes c) :: acc) [] w.w_fs in
  let changes =
    List.filter_map (fun (p, c) -> match List.assoc_opt p fs0 with
        | Some c0 when c0 = c -> None
        | _ -> Some ("+" ^ hex_of_raw p ^ "=" ^ hex_of_raw c)) final
    @ List.filter_map (fun (p, _) -> if List.mem_assoc p final then None else Some ("-" ^ hex_of_raw p)) fs0 in
  let changes = List.sort compare changes in
  let c = w.w_cnt and f = w.w_flg in
  let b x = if x then 1 else 0 in
  Printf.sprintf "exit=%d err=%s out=%s fs=%s cnt=%d,%d,%d,%d,%d flg=%d,%d,%d,%d,%d"
    (int_of_nat ex)
    (if w.w_err = [] then "." else String.concat "," (List.map emsg_str w.w_err))
    (hex_of_bytes w.w_out)
    (if changes = [] then "." else String.concat "," changes)
    (int_of_nat c.n_open) (int_of_nat c.n_read) (int_of_nat c.n_write) (int_of_nat c.n_rand) (int_of_nat c.n_gets)
    (b f.f_open) (b f.f_read) (b f.f_write) (b f.f_rand) (b f.f_gets)

let dedup fs = List.fold_left (fun acc (p, c) -> if List.mem_assoc p acc then acc else acc @ [(p, c)]) [] fs
let world_of fs0 = world0 (List.map (fun (p, c) -> (bytes_of_raw p, bytes_of_raw c)) fs0)
let cfg_of = function "S" -> shipped | "F" -> fixed | _ -> failwith "cfg"

let close_list (s : string) : int list = if s = "." then [] else List.map int_of_string (String.split_on_char ',' s)

let process (toks : string list) : string =
  match toks with
  | ["C19DEF"; name; h] -> Hashtbl.replace blobs name (raw_of_hex h); "XOK"
  | ["CRYPT"; cfg; bufsiz; mode; pw; files; fs; faults; rseed] ->
    let fs0 = dedup (parse_fs fs) in
    let src = (match pw.[0] with
        | 'P' -> PwArg (bytes_of_hex (String.sub pw 2 (String.length pw - 2)))
        | 'K' -> PwFile (bytes_of_hex (String.sub pw 2 (String.length pw - 2)))
        | _ -> failwith "pw") in
    let files = List.map (fun e -> let i = String.index e ':' in
                           (bytes_of_hex (String.sub e 0 i), bytes_of_hex (String.sub e (i + 1) (String.length e - i - 1))))
        (String.split_on_char ',' files) in
    let o = oracle_of (parse_faults faults) rseed in
    answer fs0 (x_main_crypt pbkdf2 siv_enc siv_dec a_start a_encb a_encf a_decb a_decf (nat_of_int (int_of_string bufsiz))
                  (cfg_of cfg) o (mode = "E") src (world_of fs0) files)
  | ["GEN"; cfg; kf; fs; faults; rseed] ->
    let fs0 = dedup (parse_fs fs) in
    let o = oracle_of (parse_faults faults) rseed in
    answer fs0 (x_main_generate (cfg_of cfg) o (world_of fs0) (bytes_of_hex kf))
  | ["SUM"; cfg; bufsiz; alg; mode; files; fs; faults] ->
    let fs0 = dedup (parse_fs fs) in
    let o = oracle_of (parse_faults faults) "0" in
    let files = List.map bytes_of_hex (String.split_on_char ',' files) in
    answer fs0 (x_main_sum h_init h_upd h_fin (nat_of_int (int_of_string bufsiz)) (cfg_of cfg) o (nat_of_int (int_of_string alg))
                  (mode = "C") (world_of fs0) files)
  | ["ARGS"; cfg; bufsiz; fx; closes; mode; pw; out; inputs; tty; stdin; fs; faults; rseed] ->
    let fs0 = dedup (parse_fs fs) in
    let o = oracle_of (parse_faults faults) rseed in
    let tail s n = String.sub s n (String.length s - n) in
    let a_p, a_k = (match pw.[0] with
        | 'P' -> (Some (bytes_of_hex (tail pw 2)), None)
        | 'K' -> (None, Some (bytes_of_hex (tail pw 2)))
        | 'B' -> (match String.split_on_char ':' pw with
            | [_; p; k] -> (Some (bytes_of_hex p), Some (bytes_of_hex k)) | _ -> failwith "pw")
        | 'T' -> (None, None)
        | _ -> failwith "pw") in
    let a = { a_mode = (match mode with "E" -> Some true | "D" -> Some false | "N" -> None | _ -> failwith "mode");
              a_p = a_p; a_k = a_k;
              a_o = (if out = "." then None else Some (bytes_of_hex (tail out 2)));
              a_in = (if inputs = "." then [] else List.map bytes_of_hex (String.split_on_char ',' inputs)) } in
    let t = (if tty = "N" then { t_tty = false; t_pass = [] }
             else { t_tty = true;
                    t_pass = (let r = tail tty 2 in if r = "" then [] else
                                List.map (fun x -> if x = "NULL" then None else Some (bytes_of_hex x)) (String.split_on_char ',' r)) }) in
    let cl = close_list closes in
    answer fs0 (x_main_args pbkdf2 siv_enc siv_dec a_start a_encb a_encf a_decb a_decf (nat_of_int (int_of_string bufsiz))
                  (cfg_of cfg) o { m_close = (fx.[0] = '1'); m_pwlen = (fx.[1] = '1') } (fun k -> List.mem (int_of_nat k) cl) a t
                  (bytes_of_hex stdin) (world_of fs0))
  | ["GENC"; cfg; cchk; closes; kf; fs; faults; rseed] ->
    let fs0 = dedup (parse_fs fs) in
    let o = oracle_of (parse_faults faults) rseed in
    let cl = close_list closes in
    answer fs0 (x_main_generate_c (cfg_of cfg) o (cchk = "1") (fun k -> List.mem (int_of_nat k) cl) (world_of fs0) (bytes_of_hex kf))
  | ["SUMV"; cfg; bufsiz; alg; mode; files; fs; faults] ->
    let fs0 = dedup (parse_fs fs) in
    let o = oracle_of (parse_faults faults) "0" in
    let files = if files = "." then [] else List.map bytes_of_hex (String.split_on_char ',' files) in
    answer fs0 (x_main_sum_argv h_init h_upd h_fin (nat_of_int (int_of_string bufsiz)) (cfg_of cfg) o (nat_of_int (int_of_string alg))
                  (mode = "C") (world_of fs0) files)
  | _ -> failwith "C19: bad operation"

let () = List.iter (fun n -> register n process) ["C19DEF"; "CRYPT"; "GEN"; "SUM"; "ARGS"; "GENC"; "SUMV"]
