(* Correspondence driver core: reads one operation per line on stdin, runs the
   model extracted from Coq (Model = model.ml), prints one canonical result
   line per operation.  The C/C++ harness reads the same file; `check` diffs
   the two outputs. *)
open Model

(* ---- conversions between OCaml ints / strings and the extracted types -- *)
let rec pos_of_int i = if i = 1 then XH else if i land 1 = 1 then XI (pos_of_int (i lsr 1)) else XO (pos_of_int (i lsr 1))
let n_of_int i = if i = 0 then N0 else Npos (pos_of_int i)
let rec int_of_pos = function XH -> 1 | XO p -> 2 * int_of_pos p | XI p -> 2 * int_of_pos p + 1
let int_of_n = function N0 -> 0 | Npos p -> int_of_pos p
let rec nat_of_int i = if i = 0 then O else S (nat_of_int (i - 1))
let rec int_of_nat = function O -> 0 | S n -> 1 + int_of_nat n
let int_of_z = function Z0 -> 0 | Zpos p -> int_of_pos p | Zneg p -> - (int_of_pos p)

let hexval c = match c with
  | '0'..'9' -> Char.code c - 48 | 'a'..'f' -> Char.code c - 87 | 'A'..'F' -> Char.code c - 55
  | _ -> failwith "bad hex"
let bytes_of_hex s =
  if s = "-" then [] else begin
    let n = String.length s / 2 in
    let rec go i acc = if i < 0 then acc else go (i - 1) (n_of_int (hexval s.[2*i] * 16 + hexval s.[2*i+1]) :: acc) in
    go (n - 1) [] end
let hex_of_bytes l =
  if l = [] then "-" else begin
    let b = Buffer.create 64 in
    List.iter (fun x -> Buffer.add_string b (Printf.sprintf "%02x" (int_of_n x))) l;
    Buffer.contents b end
let opt_bytes s = if s = "NULL" then None else Some (bytes_of_hex s)
let split_chunks s = if s = "" then [] else List.map bytes_of_hex (String.split_on_char ',' s)


(* ---- handler registry: each drv_<family>.ml registers its operations ---- *)
let handlers : (string, string list -> string) Hashtbl.t = Hashtbl.create 64
let register (name : string) (h : string list -> string) = Hashtbl.replace handlers name h
