(* AEAD operations: one-shot, spec, incremental, masked and C++ entry points. *)
open Model
open Drv_core

let variant = function
  | "128" -> a128 | "128a" -> a128a | "80pq" -> a80pq | _ -> failwith "variant"

(* ---- object slots ------------------------------------------------------ *)
type obj =
  | Inc of aead_variant * inc_state

let slots : (int, obj) Hashtbl.t = Hashtbl.create 16
let get_inc s = match Hashtbl.find slots s with Inc (v, st) -> (v, st)

let rec process (toks : string list) : string =
  match toks with
  | ["PERM"; r; st] -> hex_of_bytes (x_perm (nat_of_int (int_of_string r)) (bytes_of_hex st))
  (* AEM ... RK / RK2: the implementation re-randomizes the masked key before use; the key it represents is unchanged (Model/Maskm.v) *)
  | ["AEM"; v; op; k; n; ad; x; ("RK" | "RK2")] -> process ["AEM"; v; op; k; n; ad; x]
  | ["AE"; v; "ENC"; k; n; ad; pt] | ["AEM"; v; "ENC"; k; n; ad; pt] | "AEC" :: v :: "ENC" :: k :: n :: ad :: pt :: _ ->
    let (c, clen) = x_aead_encrypt (variant v) (bytes_of_hex k) (bytes_of_hex n) (bytes_of_hex ad) (bytes_of_hex pt) in
    Printf.sprintf "%s %d" (hex_of_bytes c) (int_of_nat clen)
  | "AEC" :: v :: "DEC" :: k :: n :: ad :: ct :: _ :: "BA" :: _ ->
    (* C++ byte_array overload: the output array is emptied on failure *)
    (match x_aead_decrypt (variant v) (bytes_of_hex k) (bytes_of_hex n) (bytes_of_hex ad) (bytes_of_hex ct) with
     | DecShort -> "SHORT"
     | DecDone (r, m) -> if int_of_z r = 0 then "0 " ^ hex_of_bytes m else "-1 BA")
  | ["AE"; v; "DEC"; k; n; ad; ct] | ["AEM"; v; "DEC"; k; n; ad; ct] | "AEC" :: v :: "DEC" :: k :: n :: ad :: ct :: _ ->
    (match x_aead_decrypt (variant v) (bytes_of_hex k) (bytes_of_hex n) (bytes_of_hex ad) (bytes_of_hex ct) with
     | DecShort -> "SHORT"
     | DecDone (r, m) -> Printf.sprintf "%d %s" (int_of_z r) (hex_of_bytes m))
  | ["AESPEC"; v; "ENC"; k; n; ad; pt] ->
    hex_of_bytes (x_aead_spec_encrypt (variant v) (bytes_of_hex k) (bytes_of_hex n) (bytes_of_hex ad) (bytes_of_hex pt))
  | ["AESPEC"; v; "DEC"; k; n; ad; ct] ->
    (match x_aead_spec_decrypt (variant v) (bytes_of_hex k) (bytes_of_hex n) (bytes_of_hex ad) (bytes_of_hex ct) with
     | None -> "NONE" | Some m -> "SOME " ^ hex_of_bytes m)
  | ["AI"; s; v; "INIT"; n; k] ->
    let v = variant v in
    Hashtbl.replace slots (int_of_string s) (Inc (v, x_inc_init v (opt_bytes n) (opt_bytes k))); "OK"
  | ["AI"; s; "REINIT"; n; k] ->
    let s = int_of_string s in let (v, st) = get_inc s in
    let n' = if n = "SELF" then Some st.i_nonce else opt_bytes n in
    let k' = if k = "SELF" then Some st.i_key else opt_bytes k in
    Hashtbl.replace slots s (Inc (v, x_inc_reinit v st n' k')); "OK"
  | ["AI"; s; "START"; ad] ->
    let s = int_of_string s in let (v, st) = get_inc s in
    Hashtbl.replace slots s (Inc (v, x_inc_start v st (bytes_of_hex ad))); "OK"
  | "AI" :: s :: "ENCB" :: d :: _ ->
    let s = int_of_string s in let (v, st) = get_inc s in
    let (st', o) = x_inc_encrypt_block v st (bytes_of_hex d) in
    Hashtbl.replace slots s (Inc (v, st')); hex_of_bytes o
  | "AI" :: s :: "DECB" :: d :: _ ->
    let s = int_of_string s in let (v, st) = get_inc s in
    let (st', o) = x_inc_decrypt_block v st (bytes_of_hex d) in
    Hashtbl.replace slots s (Inc (v, st')); hex_of_bytes o
  | ["AI"; s; "ENCF"] ->
    let s = int_of_string s in let (v, st) = get_inc s in
    let (st', t) = x_inc_encrypt_finalize v st in
    Hashtbl.replace slots s (Inc (v, st')); hex_of_bytes t
  | ["AI"; s; "DECF"; t] ->
    let s = int_of_string s in let (v, st) = get_inc s in
    let (st', r) = x_inc_decrypt_finalize v st (bytes_of_hex t) in
    Hashtbl.replace slots s (Inc (v, st')); string_of_int (int_of_z r)
  | ["NINC"; n] -> hex_of_bytes (x_increment_nonce (bytes_of_hex n))
  | ["NSETCTR"; c] ->
    (* decimal up to 2^64-1: parse with two halves to stay within OCaml's 63-bit ints *)
    let rec n_of_dec s = let len = String.length s in
      if len <= 15 then n_of_int (int_of_string s)
      else N.add (N.mul (n_of_dec (String.sub s 0 (len - 15))) (n_of_int 1000000000000000)) (n_of_int (int_of_string (String.sub s (len - 15) 15))) in
    hex_of_bytes (x_set_counter (n_of_dec c))
  | ["AI"; s; "FREE"] -> Hashtbl.remove slots (int_of_string s); "OK"
  | "TRNG" :: _ -> "OK"
  | ["AI"; s; "NONCE"] ->
    let (_, st) = get_inc (int_of_string s) in hex_of_bytes st.i_nonce
  | _ -> "UNSUPPORTED"

let () = List.iter (fun n -> register n process) ["PERM"; "AE"; "AEM"; "AEC"; "AESPEC"; "AI"; "NINC"; "NSETCTR"]

