(* C13: stand-alone driver for the object-image model (coq/Model/Objm.v).
   It is NOT part of ocaml/driver: Objm.v uses Coq's [string], whose extracted
   type would shadow OCaml's string in every drv_*.ml that opens Model.  So
   lib/p_c13.py extracts Objm.v on its own (ExtrOcamlBasic only) into
   objmodel.ml and links this file against it.  One request per line:
     TYPES                          -> "<name>/<how> ..." for every table entry
     LAYOUT <name> <how>            -> "size=<n> <field>:<off>:<len>:<kind> ..."   kind d(ata) f(ixed) o(paque)
     RUN <name> <how> <z|-> <op>[:a[:b[:c]]] ...
        -> "E=<image after free> B=<image before free> W=<fields op1>;<fields op2>;..."
        images: two hex digits per specified byte, ".." per unspecified byte;
        z = hex of the 80-byte zero-key image (ISAP clear()), "-" otherwise. *)
open Objmodel

let rec pos_of_int i = if i = 1 then XH else if i land 1 = 1 then XI (pos_of_int (i lsr 1)) else XO (pos_of_int (i lsr 1))
let n_of_int i = if i = 0 then N0 else Npos (pos_of_int i)
let rec int_of_pos = function XH -> 1 | XO p -> 2 * int_of_pos p | XI p -> 2 * int_of_pos p + 1
let int_of_n = function N0 -> 0 | Npos p -> int_of_pos p
let rec nat_of_int i = if i <= 0 then O else S (nat_of_int (i - 1))
let rec int_of_nat = function O -> 0 | S n -> 1 + int_of_nat n
let hexval c = match c with
  | '0'..'9' -> Char.code c - 48 | 'a'..'f' -> Char.code c - 87 | 'A'..'F' -> Char.code c - 55
  | _ -> failwith "bad hex"
let bytes_of_hex (s : Stdlib.String.t) =
  if s = "-" then [] else
    List.init (Stdlib.String.length s / 2) (fun i -> n_of_int (hexval s.[2*i] * 16 + hexval s.[2*i+1]))

let cstr_of_string (s : Stdlib.String.t) : Objmodel.string =
  let n = Stdlib.String.length s in
  let rec go i = if i >= n then EmptyString else
    let c = Char.code s.[i] in
    let b k = (c lsr k) land 1 = 1 in
    String (Ascii (b 0, b 1, b 2, b 3, b 4, b 5, b 6, b 7), go (i + 1)) in
  go 0
let string_of_cstr (s : Objmodel.string) : Stdlib.String.t =
  let b = Buffer.create 16 in
  let rec go = function
    | EmptyString -> ()
    | String (Ascii (b0, b1, b2, b3, b4, b5, b6, b7), t) ->
      let v x k = if x then 1 lsl k else 0 in
      Buffer.add_char b (Char.chr (v b0 0 + v b1 1 + v b2 2 + v b3 3 + v b4 4 + v b5 5 + v b6 6 + v b7 7)); go t in
  go s; Buffer.contents b

let img (l : n option list) : Stdlib.String.t =
  let b = Buffer.create 256 in
  List.iter (function None -> Buffer.add_string b ".." | Some x -> Buffer.add_string b (Printf.sprintf "%02x" (int_of_n x))) l;
  Buffer.contents b

let zfun (z : Stdlib.String.t) = let zb = bytes_of_hex z in fun (_ : Objmodel.string) -> zb

let parse_tok (t : Stdlib.String.t) =
  match Stdlib.String.split_on_char ':' t with
  | [] -> failwith "empty op"
  | nm :: args -> (cstr_of_string nm, List.map (fun a -> nat_of_int (int_of_string a)) args)

let process (toks : Stdlib.String.t list) : Stdlib.String.t =
  match toks with
  | ["TYPES"] ->
    Stdlib.String.concat " " (List.map (fun s -> string_of_cstr s.o_name ^ "/" ^ string_of_cstr s.o_how) (all_specs (zfun "-")))
  | ["LAYOUT"; nm; how] ->
    (match find_spec (zfun "-") (cstr_of_string nm) (cstr_of_string how) with
     | None -> "NOTYPE"
     | Some s ->
       let (size, rows) = layout_rows s in
       Printf.sprintf "size=%d %s" (int_of_nat size)
         (Stdlib.String.concat " " (List.map (fun ((f, (o, l)), k) ->
            Printf.sprintf "%s:%d:%d:%s" (string_of_cstr f) (int_of_nat o) (int_of_nat l)
              (match int_of_nat k with 0 -> "d" | 1 -> "f" | _ -> "o")) rows)))
  | "RUN" :: nm :: how :: z :: ops ->
    (match find_spec (zfun z) (cstr_of_string nm) (cstr_of_string how) with
     | None -> "NOTYPE"
     | Some s ->
       (match run_spec s (List.map parse_tok ops) with
        | None -> "BADOP"
        | Some r ->
          Printf.sprintf "E=%s B=%s W=%s" (img r.r_after) (img r.r_before)
            (Stdlib.String.concat ";" (List.map (fun l -> Stdlib.String.concat "," (List.map string_of_cstr l)) r.r_writes))))
  | _ -> "UNSUPPORTED"

let () =
  try
    while true do
      let line = input_line stdin in
      let toks = List.filter (fun s -> s <> "") (Stdlib.String.split_on_char ' ' line) in
      let r = if toks = [] then "" else (try process toks with Failure m -> "ERR " ^ m | Not_found -> "ERR notfound") in
      print_string r; print_newline ()
    done
  with End_of_file -> ()
