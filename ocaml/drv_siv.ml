(* SIV one-shot ("SIV"), ISAP one-shot ("ISAP") and pre-computed ISAP key slots ("IK"). *)
open Model
open Drv_core

let avariant = function "128" -> a128 | "128a" -> a128a | "80pq" -> a80pq | _ -> failwith "variant"
let ivariant = function "128" -> isap128 | "128a" -> isap128a | "80pq" -> isap80pq | _ -> failwith "variant"
let dec_str = function DecShort -> "SHORT" | DecDone (r, m) -> Printf.sprintf "%d %s" (int_of_z r) (hex_of_bytes m)
let kslots : (int, isap_variant * isap_key) Hashtbl.t = Hashtbl.create 8

let rec process (toks : string list) : string =
  match toks with
  (* the same operations through the C++ classes (key constructor or set_key, pointer or byte_array overload of encrypt) *)
  | "SIVC" :: v :: op :: k :: n :: ad :: x :: _ -> process ["SIV"; v; op; k; n; ad; x]
  | "ISAPC" :: v :: op :: k :: n :: ad :: x :: _ -> process ["ISAP"; v; op; k; n; ad; x]
  | ["SIV"; v; "ENC"; k; n; ad; pt] ->
    let (c, clen) = x_siv_encrypt (avariant v) (bytes_of_hex k) (bytes_of_hex n) (bytes_of_hex ad) (bytes_of_hex pt) in
    Printf.sprintf "%s %d" (hex_of_bytes c) (int_of_nat clen)
  | ["SIV"; v; "DEC"; k; n; ad; ct] -> dec_str (x_siv_decrypt (avariant v) (bytes_of_hex k) (bytes_of_hex n) (bytes_of_hex ad) (bytes_of_hex ct))
  | ["SIVSPEC"; v; "ENC"; k; n; ad; pt] -> hex_of_bytes (x_siv_spec_encrypt (avariant v) (bytes_of_hex k) (bytes_of_hex n) (bytes_of_hex ad) (bytes_of_hex pt))
  | ["ISAP"; v; "ENC"; k; n; ad; pt] ->
    let iv = ivariant v in
    let (c, clen) = x_isap_encrypt iv (x_isap_init iv (bytes_of_hex k)) (bytes_of_hex n) (bytes_of_hex ad) (bytes_of_hex pt) in
    Printf.sprintf "%s %d" (hex_of_bytes c) (int_of_nat clen)
  | ["ISAP"; v; "DEC"; k; n; ad; ct] ->
    let iv = ivariant v in dec_str (x_isap_decrypt iv (x_isap_init iv (bytes_of_hex k)) (bytes_of_hex n) (bytes_of_hex ad) (bytes_of_hex ct))
  | ["ISAPSPEC"; v; "ENC"; k; n; ad; pt] -> hex_of_bytes (x_isap_spec_encrypt (ivariant v) (bytes_of_hex k) (bytes_of_hex n) (bytes_of_hex ad) (bytes_of_hex pt))
  | "IK" :: s :: rest ->
    let s = int_of_string s in
    (match rest with
     | [v; "INIT"; k] -> let iv = ivariant v in Hashtbl.replace kslots s (iv, x_isap_init iv (bytes_of_hex k)); "OK"
     | [v; "LOAD"; saved] -> Hashtbl.replace kslots s (ivariant v, x_isap_load (bytes_of_hex saved)); "OK"
     | ["SAVE"] -> let (_, pk) = Hashtbl.find kslots s in hex_of_bytes (x_isap_save pk)
     | ["RELOAD"; d] -> (* save then load into slot d *)
       let (iv, pk) = Hashtbl.find kslots s in Hashtbl.replace kslots (int_of_string d) (iv, x_isap_load (x_isap_save pk)); "OK"
     | ["ENC"; n; ad; pt] ->
       let (iv, pk) = Hashtbl.find kslots s in
       let (c, clen) = x_isap_encrypt iv pk (bytes_of_hex n) (bytes_of_hex ad) (bytes_of_hex pt) in
       Printf.sprintf "%s %d" (hex_of_bytes c) (int_of_nat clen)
     | ["DEC"; n; ad; ct] -> let (iv, pk) = Hashtbl.find kslots s in dec_str (x_isap_decrypt iv pk (bytes_of_hex n) (bytes_of_hex ad) (bytes_of_hex ct))
     | ["CHK"] -> ignore (Hashtbl.find kslots s); "UNCHANGED"
     | ["FREE"] -> Hashtbl.remove kslots s; "OK"
     | _ -> "UNSUPPORTED")
  | _ -> "UNSUPPORTED"

let () = List.iter (fun n -> register n process) ["SIV"; "SIVSPEC"; "ISAP"; "ISAPSPEC"; "IK"; "SIVC"; "ISAPC"]
