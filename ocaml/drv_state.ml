(* public state primitives *)
open Model
open Drv_core
let process toks = match toks with
  | "ST" :: op :: st :: off :: size :: rest ->
    let s = bytes_of_hex st and off = nat_of_int (int_of_string off) and n = nat_of_int (int_of_string size) in
    let d = match rest with d :: _ -> bytes_of_hex d | [] -> [] in
    (match op with
     | "ADD" -> hex_of_bytes (x_st_add s off d) ^ " -"
     | "OVW" -> hex_of_bytes (x_st_overwrite s off d) ^ " -"
     | "ZERO" -> hex_of_bytes (x_st_zero s off n) ^ " -"
     | "EXT" -> hex_of_bytes s ^ " " ^ hex_of_bytes (x_st_extract s off n)
     | "EXTADD" -> hex_of_bytes s ^ " " ^ hex_of_bytes (x_st_extract_and_add s off d)
     | "EXTOVW" -> let (s', o) = x_st_extract_and_overwrite s off d in hex_of_bytes s' ^ " " ^ hex_of_bytes o
     | _ -> "UNSUPPORTED")
  | _ -> "UNSUPPORTED"
(* ascon_copy: the destination becomes the source, the source is unchanged; ascon_clean: all zero *)
let process2 (toks : string list) : string =
  match toks with
  | ["STC"; "COPY"; a; _junk] -> a ^ " " ^ a
  | ["PERMN"; r; st] -> hex_of_bytes (x_perm (nat_of_int (12 - int_of_string r)) (bytes_of_hex st))
  | ["VER"] -> "version-positive"
  | ["MSI"] -> String.make 80 '0' ^ " wiped"
  | ["STC"; "CLEAN"; b] -> if b = "-" then "-" else String.make (String.length b) '0'
  | _ -> "UNSUPPORTED"
let () = register "ST" process
let () = List.iter (fun n -> register n process2) ["STC"; "PERMN"; "VER"; "MSI"]
