(* C17: the extracted model of the C++ layer (coq/Model/Cppm.v).
   CPX  <class> <cpp_ctor> <member calls...>   the CODE machine, run next to the
        DOCUMENTED machine; prints what harness/h_cpp.cpp prints: held key and
        nonce after every call, results, and where code and documentation first
        part (doc=...).  Cipher functions: the extracted ASCON model for the
        plain and masked classes; for SIV and ISAP (no Coq model of the C
        function here) a free cipher over the key identity, whose bytes are
        never printed.
   XOFC / HSHC  the C call sequence the model makes for a list of member calls
   UTL  the helper models over an OCaml rendering of the two C hex functions *)
open Model
open Drv_core

let ints l = List.map int_of_n l
let nbytes l = List.map n_of_int l
let zeros_i k = List.init k (fun _ -> 0)
let rec firstn_l k l = if k <= 0 then [] else match l with [] -> [] | x :: t -> x :: firstn_l (k - 1) t
let rec skipn_l k l = if k <= 0 then l else match l with [] -> [] | _ :: t -> skipn_l (k - 1) t
let junk = nbytes (List.init 64 (fun _ -> 0xC7))
let baold = nbytes [0xDD; 0xDD; 0xDD]

(* ---- a free cipher for the classes whose C function has no Coq model ----- *)
let fnv seed (parts : int list list) =
  let h = ref seed in
  let mix b = h := Int64.mul (Int64.logxor !h (Int64.of_int b)) 0x100000001b3L in
  List.iter (fun p -> mix (List.length p land 255); mix (List.length p lsr 8); List.iter mix p) parts;
  !h
let tag16 kb nn ad m =
  let a = fnv 0xcbf29ce484222325L [kb; nn; ad; m] and b = fnv 0x84222325cbf29ce4L [m; ad; nn; kb] in
  let bytes64 x = List.init 8 (fun i -> Int64.to_int (Int64.logand (Int64.shift_right_logical x (8 * i)) 0xffL)) in
  bytes64 a @ bytes64 b
let free_enc (kb : int list) nn ad m =
  let m' = ints m in
  (nbytes (m' @ tag16 kb (ints nn) (ints ad) m'), nat_of_int (List.length m' + 16))
let free_dec (kb : int list) nn ad c =
  let c' = ints c in
  let l = List.length c' in
  if l < 16 then DecShort
  else begin
    let m = firstn_l (l - 16) c' and t = skipn_l (l - 16) c' in
    if t = tag16 kb (ints nn) (ints ad) m then DecDone (Z0, nbytes m)
    else DecDone (Zneg XH, nbytes (zeros_i (l - 16)))
  end

(* ---- ISAP key objects: symbolic ------------------------------------------ *)
type pkx = Init of n list | Load of n list
let fake_marker = [0x53; 0x41; 0x56; 0x45; 0x44]     (* the driver's own stand-in for a save_key image *)
let fake_saved klen (raw : n list) =
  let body = fake_marker @ [klen] @ ints raw in
  nbytes (body @ zeros_i (80 - List.length body))
let isap_load klen (s : n list) =
  let s' = ints s in
  if firstn_l 5 s' = fake_marker && List.nth s' 5 = klen && skipn_l (6 + klen) s' = zeros_i (80 - 6 - klen)
  then Init (nbytes (firstn_l klen (skipn_l 6 s'))) else Load s
let pk_id = function Init k -> "I" ^ hex_of_bytes k | Load s -> "L" ^ hex_of_bytes s
let pk_material = function Init k -> 1 :: ints k | Load s -> 2 :: ints s

(* ---- class table ---------------------------------------------------------- *)
type 'k cls = {
  klen : int;
  isap : bool;
  model : bool;                          (* ciphertext bytes are printed *)
  kg : (unit, 'k) cpp_keying;
  enc : 'k -> n list -> n list -> n list -> n list * nat;
  dec : 'k -> n list -> n list -> n list -> dec_result;
  key_of_doc : cpp_dkey -> 'k;
  kid : 'k -> string;
}

let plain v klen = {
  klen; isap = false; model = true; kg = cpp_keying_plain (nat_of_int klen) (nat_of_int klen);
  enc = x_aead_encrypt v; dec = x_aead_decrypt v; key_of_doc = cpp_raw_key_of_doc; kid = hex_of_bytes }
(* masked key object = its value: masking is C10's subject; C17 needs only "same value" *)
let masked v klen = {
  klen; isap = false; model = true;
  kg = cpp_keying_masked (fun () k -> k) (nbytes (zeros_i klen)) (fun () k -> k) (nat_of_int klen);
  enc = x_aead_encrypt v; dec = x_aead_decrypt v; key_of_doc = cpp_raw_key_of_doc; kid = hex_of_bytes }
let siv tagbyte klen ncopy = {
  klen; isap = false; model = false; kg = cpp_keying_plain (nat_of_int klen) ncopy;
  enc = (fun k -> free_enc (tagbyte :: ints k)); dec = (fun k -> free_dec (tagbyte :: ints k));
  key_of_doc = cpp_raw_key_of_doc; kid = hex_of_bytes }
let isap tagbyte klen = {
  klen; isap = true; model = false;
  kg = cpp_keying_isap (fun k -> Init k) (isap_load klen) x_cpp_isap_version (nat_of_int klen);
  enc = (fun k -> free_enc (tagbyte :: pk_material k)); dec = (fun k -> free_dec (tagbyte :: pk_material k));
  key_of_doc = cpp_isap_key_of_doc (fun k -> Init k) (isap_load klen); kid = pk_id }

let mutate (ct : int list) (ad : int list) (mut : string) =
  let pre p = String.length mut >= String.length p && String.sub mut 0 (String.length p) = p in
  let num p = int_of_string (String.sub mut (String.length p) (String.length mut - String.length p)) in
  let l = List.length ct in
  if mut = "ok" then (ct, ad)
  else if pre "flip" then begin
    let i = num "flip" mod (l * 8) in
    (List.mapi (fun j b -> if j = i / 8 then b lxor (0x80 lsr (i mod 8)) else b) ct, ad) end
  else if pre "trunc" then (let k = num "trunc" in (firstn_l (if k >= l then 0 else l - k) ct, ad))
  else if pre "short" then (let k = num "short" in (firstn_l (min k l) ct, ad))
  else if mut = "ext" then (ct @ [0], ad)
  else if mut = "adflip" then (ct, (match ad with [] -> [1] | x :: t -> (x lxor 1) :: t))
  else failwith "mutation"

(* a 64-bit counter given as hex digits -> N (OCaml ints are 63-bit) *)
let n_of_hex (h : string) : n =
  let acc = ref None in
  String.iter (fun ch ->
    let v = hexval ch in
    for b = 3 downto 0 do
      let bit = (v lsr b) land 1 = 1 in
      acc := (match !acc with None -> if bit then Some XH else None | Some p -> Some (if bit then XI p else XO p))
    done) h;
  match !acc with None -> N0 | Some p -> Npos p

let z_str z = string_of_int (int_of_z z)
let colon s = String.split_on_char ':' s
let ptr_of s = if s = "NULL" then None else Some (bytes_of_hex s)

let run_cpx (type k) (c : k cls) (toks : string list) : string =
  let klen_n = nat_of_int c.klen in
  let b = Buffer.create 256 in
  let dev = ref "" in
  let note i what = if !dev = "" then dev := Printf.sprintf "DEV@%d:%s" i what in
  let nid (o : k cpp_obj) = hex_of_bytes o.cpo_nonce in
  let check i (o : k cpp_obj) (d : cpp_dstate) =
    (match d.cpd_key with Some cpd_key when c.kid o.cpo_key <> c.kid (c.key_of_doc cpd_key) -> note i "key" | _ -> ());
    (match d.cpd_nonce with Some cpd_nonce when hex_of_bytes cpd_nonce <> nid o -> note i "nonce" | _ -> ()) in
  let cstep = x_cpp_code_step c.enc c.dec c.kg in
  let dstep = x_cpp_doc_step klen_n c.enc c.dec c.isap c.key_of_doc in
  let ctor_tok, ops = match toks with ct :: ops -> ct, ops | [] -> failwith "cpp_ctor" in
  let cpp_ctor = match colon ctor_tok with
    | ["D"] -> CppDefault
    | ["K"; p] -> CppKeyCtor (junk, (), ptr_of p, nat_of_int 0)
    | ["KL"; p; len] -> CppKeyCtor (junk, (), ptr_of p, nat_of_int (int_of_string len))
    | ["KLS"; raw] -> CppKeyCtor (junk, (), Some (fake_saved c.klen (bytes_of_hex raw)), nat_of_int 80)
    | _ -> failwith "cpp_ctor" in
  match x_cpp_code_ctor c.kg cpp_ctor with
  | CppFault -> "FAULT doc=DEV@0:fault"
  | CppOk o0 ->
    let d0 = match x_cpp_doc_ctor klen_n c.isap c.isap cpp_ctor with
      | Some d -> d | None -> { cpd_key = None; cpd_nonce = None } in
    Buffer.add_string b (Printf.sprintf "C[ks=%d,ts=16,ns=16,k=%s,n=%s]" c.klen (c.kid o0.cpo_key) (nid o0));
    check 0 o0 d0;
    let o = ref o0 and d = ref d0 and faulted = ref false in
    List.iteri (fun i0 tok ->
      if not !faulted then begin
        let i = i0 + 1 in
        let f = colon tok in
        let doc_ct ad m mut =       (* ciphertext under the documented state, mutated *)
          match !d.cpd_key, !d.cpd_nonce with
          | Some cpd_key, Some cpd_nonce ->
            let (ct, _) = c.enc (c.key_of_doc cpd_key) cpd_nonce ad m in
            let (ct', ad') = mutate (ints ct) (ints ad) mut in (nbytes ct', nbytes ad')
          | _ -> failwith "decrypt with unknown documented state" in
        let (opv : unit cpp_op), tag = match f with
          | ["SK"; p; len] -> CpSetKey ((), ptr_of p, nat_of_int (int_of_string len)), "SK"
          | ["SKS"; raw] -> CpSetKey ((), Some (fake_saved c.klen (bytes_of_hex raw)), nat_of_int 80), "SK"
          | ["SN"; p; len] -> CpSetNonce (ptr_of p, nat_of_int (int_of_string len)), "SN"
          | ["SC"; v] -> CpSetCounter (n_of_hex v), "SC"
          | ["RK"] -> CpRandomize (), "RK"
          | ["CL"] -> CpClear, "CL"
          | ["E"; ad; m] -> CpEncrypt (bytes_of_hex ad, bytes_of_hex m), "E"
          | ["E3"; m] -> CpEncrypt ([], bytes_of_hex m), "E"
          | ["EB"; ad; m] -> CpEncryptBA (baold, bytes_of_hex ad, bytes_of_hex m), "EB"
          | ["EB2"; m] -> CpEncryptBA (baold, [], bytes_of_hex m), "EB"
          | ["DV"; ad; m; mut] -> let (ct, ad') = doc_ct (bytes_of_hex ad) (bytes_of_hex m) mut in CpDecrypt (ad', ct), "D"
          | ["D3"; m; mut] -> let (ct, ad') = doc_ct [] (bytes_of_hex m) (if mut = "adflip" then "flip0" else mut) in CpDecrypt (ad', ct), "D"
          | ["DB"; ad; m; mut] -> let (ct, ad') = doc_ct (bytes_of_hex ad) (bytes_of_hex m) mut in CpDecryptBA (baold, ad', ct), "DB"
          | ["DB2"; m; mut] -> let (ct, ad') = doc_ct [] (bytes_of_hex m) (if mut = "adflip" then "flip0" else mut) in CpDecryptBA (baold, ad', ct), "DB"
          | _ -> failwith ("cpp_op " ^ tok) in
        let dres = dstep !d opv in
        match cstep !o opv with
        | CppFault -> faulted := true; note i "fault"; Buffer.add_string b " FAULT"
        | CppOk (o', r) ->
          o := o';
          let cfield bytes = if c.model then ",c=" ^ hex_of_bytes bytes else "" in
          let ctlen = match opv with CpDecrypt (_, ct) | CpDecryptBA (_, _, ct) -> List.length ct | _ -> 0 in
          let part = match r with
            | CprBool bb -> Printf.sprintf " SK[r=%d,k=%s]" (if bb then 1 else 0) (c.kid o'.cpo_key)
            | CprUnit -> (match tag with
                | "RK" -> Printf.sprintf " RK[k=%s]" (c.kid o'.cpo_key)
                | "CL" -> Printf.sprintf " CL[k=%s,n=%s]" (c.kid o'.cpo_key) (nid o')
                | t -> Printf.sprintf " %s[n=%s]" t (nid o'))
            | CprEnc (rz, ct) -> Printf.sprintf " E[r=%s,n=%s,fwd=ok%s]" (z_str rz) (nid o') (cfield ct)
            | CprEncBA ct -> Printf.sprintf " EB[len=%d,n=%s,fwd=ok%s]" (List.length ct) (nid o') (cfield ct)
            | CprDec (rz, m) ->
              let ms = match m with
                | None -> "u"
                | Some m -> if int_of_z rz >= 0 then hex_of_bytes m
                  else if ctlen - 16 = 0 then "-"
                  else if List.for_all (fun x -> int_of_n x = 0) m then "z" else hex_of_bytes m in
              Printf.sprintf " D[r=%s,n=%s,fwd=ok,m=%s]" (z_str rz) (nid o') ms
            | CprDecBA (ok, m) -> Printf.sprintf " DB[r=%d,len=%d,n=%s,fwd=ok,m=%s]" (if ok then 1 else 0) (List.length m) (nid o') (hex_of_bytes m) in
          Buffer.add_string b part;
          (* the documented machine: results, then the state *)
          (match dres with
           | None -> ()        (* no documented meaning (e.g. after clear()): nothing to compare *)
           | Some (d', dr) ->
             let known = (match !d.cpd_key, !d.cpd_nonce with Some _, Some _ -> true | _ -> false) in
             d := d';
             (match r, dr with
              | CprBool a, CprBool a' -> if a <> a' then note i "ret"
              | CprEnc (a, x), CprEnc (a', x') when known -> if int_of_z a <> int_of_z a' then note i "ret" else if x <> x' then note i "out"
              | CprEncBA x, CprEncBA x' when known -> if List.length x <> List.length x' then note i "ret" else if x <> x' then note i "out"
              | CprDec (a, x), CprDec (a', x') when known -> if int_of_z a <> int_of_z a' then note i "ret" else if x <> x' then note i "out"
              | CprDecBA (a, x), CprDecBA (a', x') when known -> if a <> a' then note i "ret" else if x <> x' then note i "out"
              | _ -> ()));
          (match dres with None -> (match opv with CpClear -> d := { cpd_key = None; cpd_nonce = None } | _ -> ()) | Some _ -> ());
          check i !o !d
      end) ops;
    Buffer.contents b ^ " doc=" ^ (if !dev = "" then "ok" else !dev)

let cpx cls toks =
  match cls with
  | "aead128" -> run_cpx (plain a128 16) toks
  | "aead128a" -> run_cpx (plain a128a 16) toks
  | "aead80pq" -> run_cpx (plain a80pq 20) toks
  | "aead128_masked" -> run_cpx (masked a128 16) toks
  | "aead128a_masked" -> run_cpx (masked a128a 16) toks
  | "aead80pq_masked" -> run_cpx (masked a80pq 20) toks
  | "siv128" -> run_cpx (siv 1 16 (nat_of_int 16)) toks
  | "siv128a" -> run_cpx (siv 2 16 (nat_of_int 16)) toks
  | "siv80pq" -> run_cpx (siv 3 20 x_cpp_siv80pq_ncopy) toks
  | "isap128" -> run_cpx (isap 4 16) toks
  | "isap128a" -> run_cpx (isap 5 16) toks
  | "isap80pq" -> run_cpx (isap 6 20) toks
  | _ -> "UNSUPPORTED"

(* ---- xof / hash: the C calls the model makes ------------------------------ *)
let log : string list ref = ref []
let emit s = log := s :: !log
let cstr_tok = function None -> "NULL" | Some b -> hex_of_bytes b

let xof_calls (lstr : string) (toks : string list) : string =
  log := [];
  let l = int_of_string lstr in
  let ln = nat_of_int l in
  (* the state stands for "the object"; the constructor model returns the name of the init call it selects *)
  let copy_f = (fun _ _ -> emit "copyfrom"; "") in
  let cpp_ctor = x_cpp_xof_ctor "init" (fun n -> Printf.sprintf "init_fixed:%d" (int_of_nat n))
      (fun name custom n -> Printf.sprintf "init_custom:%s:%s:%d" (match name with None -> "NULL" | Some b -> hex_of_bytes b) (hex_of_bytes custom) (int_of_nat n))
      copy_f ln in
  let step = x_cpp_xof_step
      (fun _ -> emit "reinit"; "")
      (fun _ n -> emit (Printf.sprintf "reinit_fixed:%d" (int_of_nat n)); "")
      (fun _ d -> emit ("absorb:" ^ hex_of_bytes d); "")
      (fun _ n -> emit (Printf.sprintf "squeeze:%d" (int_of_nat n)); ("", nbytes (zeros_i (int_of_nat n))))
      (fun _ -> emit "pad"; "")
      copy_f
      (fun _ -> emit "free"; "") ln in
  let ctor_tok, ops = match toks with ct :: ops -> ct, ops | [] -> failwith "cpp_ctor" in
  (match colon ctor_tok with
   | ["D"] -> emit (cpp_ctor CpxDefault)
   | ["N"; name; custom; _] -> emit (cpp_ctor (CpxCustom ((if name = "NULL" then None else Some (bytes_of_hex name)), bytes_of_hex custom)))
   | _ -> failwith "cpp_ctor");
  List.iter (fun tok ->
    match colon tok with
    | ["A"; d] | ["AB"; d] -> ignore (step "" (CpxAbsorb (bytes_of_hex d)))
    | ["AC"; "NULL"] -> ignore (step "" (CpxAbsorbCStr None))
    | ["AC"; d] -> ignore (step "" (CpxAbsorbCStr (Some (bytes_of_hex d @ [n_of_int 0]))))
    | ["AS"; d] -> ignore (step "" (CpxAbsorbString (bytes_of_hex d)))
    | ["Q"; n] -> ignore (step "" (CpxSqueeze (nat_of_int (int_of_string n))))
    | ["QB"; n] -> ignore (step "" (CpxSqueezeBA (nat_of_int (int_of_string n))))
    | ["P"] -> ignore (step "" CpxPad)
    | ["R"] -> ignore (step "" CpxReset)
    | ["CP"] -> emit "copyctor"
    | ["ASG"] -> emit "asbegin"; ignore (step "" (CpxAssign (false, ""))); emit "asend"
    | ["SELF"] -> ignore (step "" (CpxAssign (true, "")))
    | ["ST"] -> ()
    | _ -> failwith ("cpp_op " ^ tok)) ops;
  String.concat " " (List.rev !log)

let hash_calls (toks : string list) : string =
  log := [];
  let step = x_cpp_hash_step
      (fun () -> emit "reinit")
      (fun () d -> emit ("update:" ^ hex_of_bytes d))
      (fun () -> emit "finalize"; ((), nbytes (zeros_i 32)))
      (fun () () -> emit "copyfrom")
      (fun () -> emit "free")
      (fun d -> emit ("oneshot:" ^ hex_of_bytes d); nbytes (zeros_i 32)) in
  List.iter (fun tok ->
    match colon tok with
    | ["U"; d] | ["UB"; d] -> ignore (step () (CphUpdate (bytes_of_hex d)))
    | ["UC"; "NULL"] -> ignore (step () (CphUpdateCStr None))
    | ["UC"; d] -> ignore (step () (CphUpdateCStr (Some (bytes_of_hex d @ [n_of_int 0]))))
    | ["US"; d] -> ignore (step () (CphUpdateString (bytes_of_hex d)))
    | ["F"] -> ignore (step () CphFinalize)
    | ["FB"] -> ignore (step () CphFinalizeBA)
    | ["DG"; d] -> ignore (step () (CphDigest (bytes_of_hex d)))
    | ["R"] -> ignore (step () CphReset)
    | ["CP"] -> emit "copyctor"
    | ["ASG"] -> emit "asbegin"; ignore (step () (CphAssign (false, ()))); emit "asend"
    | ["SELF"] -> ignore (step () (CphAssign (true, ())))
    | ["ST"] -> ()
    | _ -> failwith ("cpp_op " ^ tok)) toks;
  String.concat " " (List.rev !log)

(* ---- utility.h helpers ----------------------------------------------------- *)
(* ascon_bytes_to_hex / ascon_bytes_from_hex, rendered in OCaml (their own
   semantics is C20's subject; here they only feed the wrapper models) *)
let c_to_hex (input : n list) (upper : bool) (outlen : nat) : n list option =
  let l = List.length input in
  if int_of_nat outlen < 2 * l + 1 then None
  else begin
    let digs = if upper then "0123456789ABCDEF" else "0123456789abcdef" in
    Some (List.concat_map (fun x -> let v = int_of_n x in
                            [n_of_int (Char.code digs.[v lsr 4]); n_of_int (Char.code digs.[v land 15])]) input) end
let c_from_hex (outlen : nat) (chars : n list) : n list option =
  let cap = int_of_nat outlen in
  let rec go cs nib value acc cnt =
    match cs with
    | [] -> if nib then None else Some (List.rev acc)
    | ch :: rest ->
      let ch = int_of_n ch in
      let dig = if ch >= 48 && ch <= 57 then Some (ch - 48) else if ch >= 97 && ch <= 102 then Some (ch - 87)
        else if ch >= 65 && ch <= 70 then Some (ch - 55) else None in
      (match dig with
       | Some dg -> if nib then (if cnt >= cap then None else go rest false 0 (n_of_int (value lor dg) :: acc) (cnt + 1))
         else go rest true (dg lsl 4) acc cnt
       | None -> if List.mem ch [32; 9; 13; 10; 12; 11] then go rest nib value acc cnt else None) in
  go chars false 0 [] 0

let str_of_chars l = if l = [] then "-" else String.concat "" (List.map (fun x -> String.make 1 (Char.chr (int_of_n x))) l)

let process (toks : string list) : string =
  match toks with
  | ["CPXVER"] -> Printf.sprintf "siv80pq=%s isap_setkey0=%s"
                   (if int_of_nat x_cpp_siv80pq_ncopy = 20 then "CodeFixed" else "CodeAsFound")
                   (match x_cpp_isap_version with CodeFixed -> "CodeFixed" | CodeAsFound -> "CodeAsFound")
  | "CPX" :: cls :: rest -> cpx cls rest
  | "XOFC" :: _ :: l :: rest -> xof_calls l rest
  | "HSHC" :: _ :: rest -> hash_calls rest
  | ["UTL"; "TOHEX"; d; up; _] -> "S=" ^ str_of_chars (x_cpp_bytes_to_hex c_to_hex junk (bytes_of_hex d) (up = "1")) ^ " C=ok"
  | ["UTL"; "TOHEXD"; d; _] -> "S=" ^ str_of_chars (x_cpp_bytes_to_hex c_to_hex junk (bytes_of_hex d) false) ^ " C=ok"
  | ["UTL"; "FROMDATA"; d] ->
    (match x_cpp_bytes_from_data (Some (bytes_of_hex d)) (nat_of_int (List.length (bytes_of_hex d))) with
     | CppOk r -> "B=" ^ hex_of_bytes r ^ " C=ok" | CppFault -> "FAULT")
  | ["UTL"; "FROMHEX"; "NULL"; "C"] -> "B=" ^ hex_of_bytes (x_cpp_bytes_from_hex_cstr c_from_hex None) ^ " C=ok"
  | ["UTL"; "FROMHEX"; s; "C"] -> "B=" ^ hex_of_bytes (x_cpp_bytes_from_hex_cstr c_from_hex (Some (bytes_of_hex s @ [n_of_int 0]))) ^ " C=ok"
  | ["UTL"; "FROMHEX"; s; _] -> "B=" ^ hex_of_bytes (x_cpp_bytes_from_hex c_from_hex (bytes_of_hex s)) ^ " C=ok"
  | _ -> "UNSUPPORTED"

let () = List.iter (fun n -> register n process) ["CPX"; "CPXVER"; "XOFC"; "HSHC"; "UTL"]
