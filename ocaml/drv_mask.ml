(* Masked keys "MK": mask / extract / re-randomise histories under a scripted random tape. *)
open Model
open Drv_core

let flags (ws : bool list list) =
  String.concat "," (List.map (fun w -> String.concat "" (List.map (fun b -> if b then "1" else "0") w)) ws)

let process (toks : string list) : string =
  match toks with
  | ["MK"; _bits; n; kind; key; rounds; tape] ->
    let tape = if tape = "-" then [] else split_chunks tape in
    let (k0, rs) = x_mk_history (nat_of_int (int_of_string n)) (kind = "w32") (bytes_of_hex key) tape (nat_of_int (int_of_string rounds)) in
    String.concat " " (hex_of_bytes k0 :: List.map (fun (k, f) -> hex_of_bytes k ^ ":" ^ flags f) rs)
  | ["MR"; n; kind; st; rounds; tape] ->
    let tape = if tape = "-" then [] else split_chunks tape in
    let b = bytes_of_hex st in
    let rec chunks l = match l with [] -> [] | _ -> let rec take k l = if k = 0 then ([], l) else (match l with [] -> ([], []) | x :: r -> let (a, b) = take (k - 1) r in (x :: a, b)) in
                                              let (a, r) = take 8 l in a :: chunks r in
    let (v0, rs) = x_mws_history (nat_of_int (int_of_string n)) (kind = "w32") (chunks b) tape (nat_of_int (int_of_string rounds)) in
    let cat vs = hex_of_bytes (List.concat vs) in
    String.concat " " (cat v0 :: List.map (fun (v, f) -> cat v ^ ":" ^ flags f) rs)
  | ["MP"; st; prog; _tape] ->
    let steps = List.map (fun c -> if String.length c > 1 && c.[0] = 'p' then Some (nat_of_int (int_of_string (String.sub c 1 (String.length c - 1)))) else None)
        (String.split_on_char ',' prog) in
    hex_of_bytes (x_ms_run steps (bytes_of_hex st))
  | _ -> "UNSUPPORTED"

let () = List.iter (fun n -> register n process) ["MK"; "MP"; "MR"]
