// x_threads.cpp - (D) observation for property C16 (re-entrancy).
//
// Standalone program (not part of verif_harness).  N threads, each with its
// OWN objects of every stateful type of the C API, all of them reading the
// same SHARED CONSTANT objects: input buffers, a pre-computed ISAP key per
// variant, a masked 128-bit and 160-bit key, a released permutation state and
// absorbed hash/XOF states that are only ever used as the source of a copy.
// The shared objects are declared `const` and are passed without any cast, so
// this file compiles only while the corresponding parameters of the public
// headers are const-qualified.
//
// The same per-thread workload is first run sequentially (thread ids 0..N-1,
// one after the other, in the main thread); then N threads run it
// concurrently from a common start line, their schedules perturbed by
// sched_yield/usleep decisions drawn from a per-thread generator seeded from
// the seed argument.  Every result record of every thread must equal the
// sequential one.  Built with -fsanitize=thread against a TSan build of the
// library, so that any conflicting unsynchronised access inside the library is
// reported on stderr (exit status 66).
//
// usage: x_threads <threads> <seed> <iterations>
// stdout: "DIGEST t=<i> <hex>" per thread (sequential pass), then either
//         "OK threads=.. seed=.. iters=.. records=.. bytes=.." or
//         "MISMATCH thread=<t> record=<k> op=<name> iter=<i>" lines; exit 0/1.
#include <ascon/aead.h>
#include <ascon/aead-masked.h>
#include <ascon/hash.h>
#include <ascon/xof.h>
#include <ascon/hkdf.h>
#include <ascon/hmac.h>
#include <ascon/kmac.h>
#include <ascon/kdf.h>
#include <ascon/prf.h>
#include <ascon/pbkdf2.h>
#include <ascon/siv.h>
#include <ascon/isap.h>
#include <ascon/masking.h>
#include <ascon/random.h>
#include <ascon/permutation.h>
#include <ascon/utility.h>

#include <atomic>
#include <thread>
#include <vector>
#include <string>
#include <cstdio>
#include <cstdlib>
#include <cstring>
#include <stdint.h>
#include <sched.h>
#include <unistd.h>

typedef unsigned char u8;

struct Rng {
    uint64_t s;
    explicit Rng(uint64_t seed) : s(seed * 0x9E3779B97F4A7C15ULL + 0x1234567ULL) {}
    uint64_t next() { uint64_t z = (s += 0x9E3779B97F4A7C15ULL); z = (z ^ (z >> 30)) * 0xBF58476D1CE4E5B9ULL;
                      z = (z ^ (z >> 27)) * 0x94D049BB133111EBULL; return z ^ (z >> 31); }
    void fill(u8 *p, size_t n) { for (size_t i = 0; i < n; ++i) p[i] = (u8)next(); }
};

struct Rec { const char *op; int iter; std::vector<u8> b; };
typedef std::vector<Rec> Recs;

// ---- shared constant objects (written only before any thread starts) ------
static const size_t SH_MSG_LEN = 1536;
struct Shared {
    u8 msg[SH_MSG_LEN];
    u8 ad[96];
    u8 key[20];
    u8 salt[24];
    ascon128_isap_aead_key_t isap128;
    ascon128a_isap_aead_key_t isap128a;
    ascon80pq_isap_aead_key_t isap80pq;
    ascon_masked_key_128_t mk128;
    ascon_masked_key_160_t mk160;
    ascon_state_t perm;              // released state, source of ascon_copy
    ascon_xof_state_t xof;           // absorbed, source of ascon_xof_copy
    ascon_xofa_state_t xofa;
    ascon_hash_state_t hash;         // absorbed, source of ascon_hash_copy
    ascon_hasha_state_t hasha;
};
static Shared g_shared_storage;                        // filled by setup_shared()
static const Shared *const SH = &g_shared_storage;     // everything below sees it const

static void setup_shared(uint64_t seed)
{
    Shared *s = &g_shared_storage;
    Rng r(seed ^ 0xC16C16C16ULL);
    r.fill(s->msg, sizeof(s->msg));
    r.fill(s->ad, sizeof(s->ad));
    r.fill(s->key, sizeof(s->key));
    r.fill(s->salt, sizeof(s->salt));
    ascon128_isap_aead_init(&s->isap128, s->key);
    ascon128a_isap_aead_init(&s->isap128a, s->key);
    ascon80pq_isap_aead_init(&s->isap80pq, s->key);
    ascon_masked_key_128_init(&s->mk128, s->key);
    ascon_masked_key_160_init(&s->mk160, s->key);
    ascon_init(&s->perm);
    ascon_overwrite_bytes(&s->perm, s->msg, 0, 40);
    ascon_permute(&s->perm, 0);
    ascon_release(&s->perm);
    ascon_xof_init(&s->xof);   ascon_xof_absorb(&s->xof, s->msg, 21);
    ascon_xofa_init(&s->xofa); ascon_xofa_absorb(&s->xofa, s->msg, 37);
    ascon_hash_init(&s->hash);   ascon_hash_update(&s->hash, s->msg, 13);
    ascon_hasha_init(&s->hasha); ascon_hasha_update(&s->hasha, s->msg, 29);
}

// ---- schedule perturbation ---------------------------------------------------
struct Jitter {
    Rng r;
    explicit Jitter(uint64_t seed) : r(seed) {}
    void point() {
        uint64_t x = r.next();
        if ((x & 3) == 0) sched_yield();
        else if ((x & 63) == 1) usleep((useconds_t)((x >> 8) % 300));
    }
};
#define JIT() do { if (jit) jit->point(); } while (0)

static void put(Recs &out, const char *op, int iter, const void *p, size_t n)
{
    Rec r; r.op = op; r.iter = iter; r.b.assign((const u8 *)p, (const u8 *)p + n);
    out.push_back(r);
}
static void puti(Recs &out, const char *op, int iter, long v)
{
    u8 b[8]; for (int i = 0; i < 8; ++i) b[i] = (u8)((unsigned long)v >> (8 * i));
    put(out, op, iter, b, 8);
}

// ---- per-family workloads (all objects are locals of the calling thread) ----

static void w_perm(int it, Rng &d, Jitter *jit, Recs &out)
{
    ascon_state_t st, st2;
    u8 buf[40], buf2[40], nonce[16];
    d.fill(nonce, 16);
    ascon_init(&st);
    ascon_overwrite_bytes(&st, SH->msg + (it % 64), 0, 40);
    JIT();
    ascon_permute(&st, 0);
    ascon_add_bytes(&st, nonce, 8, 16);
    ascon_permute(&st, 6);
    JIT();
    ascon_extract_bytes(&st, buf, 0, 40);
    ascon_extract_and_add_bytes(&st, SH->msg + 100, buf2, 3, 29);
    ascon_overwrite_with_zeroes(&st, 0, 8);
    ascon_extract_and_overwrite_bytes(&st, SH->ad, buf2 + 29, 8, 11);
    ascon_release(&st);
    JIT();
    ascon_acquire(&st);
    ascon_permute(&st, 4);
    ascon_extract_bytes(&st, buf, 0, 40);
    ascon_free(&st);
    put(out, "perm", it, buf, 40); put(out, "perm.x", it, buf2, 40);
    ascon_init(&st2);
    ascon_copy(&st2, &SH->perm);          // shared const source
    JIT();
    ascon_permute(&st2, 11);
    ascon_extract_bytes(&st2, buf, 0, 40);
    ascon_free(&st2);
    put(out, "perm.copy", it, buf, 40);
}

#define HASH_FAMILY(NAME, H, HS, SHOBJ) \
static void NAME(int it, Rng &d, Jitter *jit, Recs &out) \
{ \
    size_t len = (size_t)(d.next() % 200), off = (size_t)(d.next() % 512); \
    u8 dg[32], dg2[32], dg3[32]; \
    H(dg, SH->msg + off, len); \
    JIT(); \
    HS st, st2; \
    H##_init(&st); \
    H##_update(&st, SH->msg + off, len / 3); \
    JIT(); \
    H##_copy(&st2, &st); \
    H##_update(&st, SH->msg + off + len / 3, len - len / 3); \
    H##_finalize(&st, dg2); \
    JIT(); \
    H##_reinit(&st); H##_update(&st, SH->ad, 17); H##_finalize(&st, dg3); \
    H##_free(&st); \
    put(out, #H, it, dg, 32); put(out, #H ".inc", it, dg2, 32); put(out, #H ".reinit", it, dg3, 32); \
    H##_finalize(&st2, dg3); H##_free(&st2); put(out, #H ".fork", it, dg3, 32); \
    H##_copy(&st2, &SH->SHOBJ);            /* shared const source */ \
    JIT(); \
    H##_update(&st2, SH->msg + off, 9); H##_finalize(&st2, dg3); H##_free(&st2); \
    put(out, #H ".copy", it, dg3, 32); \
}
HASH_FAMILY(w_hash, ascon_hash, ascon_hash_state_t, hash)
HASH_FAMILY(w_hasha, ascon_hasha, ascon_hasha_state_t, hasha)

#define XOF_FAMILY(NAME, X, XS, SHOBJ) \
static void NAME(int it, Rng &d, Jitter *jit, Recs &out) \
{ \
    size_t len = (size_t)(d.next() % 150), off = (size_t)(d.next() % 700); \
    u8 o1[32], o2[77], o3[40], o4[48]; \
    X(o1, SH->msg + off, len); \
    put(out, #X, it, o1, 32); \
    XS st, st2; \
    X##_init(&st); X##_absorb(&st, SH->msg + off, len); JIT(); \
    X##_squeeze(&st, o2, 5); JIT(); X##_squeeze(&st, o2 + 5, 72); \
    X##_pad(&st); X##_absorb(&st, SH->ad, 7); X##_squeeze(&st, o3, 40); X##_free(&st); \
    put(out, #X ".inc", it, o2, 77); put(out, #X ".pad", it, o3, 40); \
    X##_init_fixed(&st, 40); X##_absorb(&st, SH->msg + off, len); JIT(); X##_squeeze(&st, o3, 40); \
    X##_reinit_fixed(&st, 32); X##_absorb(&st, SH->msg, 3); X##_squeeze(&st, o1, 32); X##_free(&st); \
    put(out, #X ".fixed", it, o3, 40); put(out, #X ".refixed", it, o1, 32); \
    X##_init_custom(&st, "C16", SH->salt, 11 + (size_t)(it % 13), 0); JIT(); \
    X##_absorb(&st, SH->msg + off, len); X##_squeeze(&st, o4, 48); \
    X##_reinit_custom(&st, "a function name longer than thirty-two bytes", SH->salt, 24, 48); \
    X##_absorb(&st, SH->ad, 31); X##_squeeze(&st, o3, 40); X##_free(&st); \
    put(out, #X ".custom", it, o4, 48); put(out, #X ".recustom", it, o3, 40); \
    X##_copy(&st2, &SH->SHOBJ);             /* shared const source */ \
    JIT(); \
    X##_absorb(&st2, SH->msg + off, 10); X##_squeeze(&st2, o4, 48); X##_free(&st2); \
    put(out, #X ".copy", it, o4, 48); \
}
XOF_FAMILY(w_xof, ascon_xof, ascon_xof_state_t, xof)
XOF_FAMILY(w_xofa, ascon_xofa, ascon_xofa_state_t, xofa)

#define AEAD_FAMILY(NAME, P, KLEN) \
static void NAME(int it, Rng &d, Jitter *jit, Recs &out) \
{ \
    u8 key[KLEN], nonce[16], ct[512 + 16], pt[512], ct2[512 + 16], tag[16]; \
    size_t mlen = (size_t)(d.next() % 300), adlen = (size_t)(d.next() % 60), off = (size_t)(d.next() % 1000); \
    size_t clen = 0, plen = 0; \
    d.fill(key, KLEN); d.fill(nonce, 16); \
    P##_aead_encrypt(ct, &clen, SH->msg + off, mlen, SH->ad, adlen, nonce, key); \
    JIT(); \
    int rc = P##_aead_decrypt(pt, &plen, ct, clen, SH->ad, adlen, nonce, key); \
    put(out, #P ".enc", it, ct, clen); \
    puti(out, #P ".dec", it, rc * 4 + (plen == mlen) * 2 + (memcmp(pt, SH->msg + off, mlen) == 0)); \
    ct[clen / 2] ^= 0x10; \
    rc = P##_aead_decrypt(pt, &plen, ct, clen, SH->ad, adlen, nonce, key); \
    puti(out, #P ".dec.bad", it, rc); \
    JIT(); \
    P##_state_t st; \
    size_t cut = mlen ? (size_t)(d.next() % mlen) : 0; \
    P##_aead_init(&st, nonce, key); \
    P##_aead_start(&st, SH->ad, adlen); \
    P##_aead_encrypt_block(&st, SH->msg + off, ct2, cut); JIT(); \
    P##_aead_encrypt_block(&st, SH->msg + off + cut, ct2 + cut, mlen - cut); \
    P##_aead_encrypt_finalize(&st, tag); \
    put(out, #P ".inc", it, ct2, mlen); put(out, #P ".inc.tag", it, tag, 16); \
    ascon_aead_increment_nonce(nonce); \
    P##_aead_reinit(&st, nonce, key); \
    P##_aead_start(&st, SH->ad + 1, adlen / 2); \
    P##_aead_encrypt_block(&st, SH->msg + off, ct2, mlen); JIT(); \
    P##_aead_encrypt_finalize(&st, tag); \
    P##_aead_reinit(&st, nonce, key); \
    P##_aead_start(&st, SH->ad + 1, adlen / 2); \
    P##_aead_decrypt_block(&st, ct2, pt, mlen); \
    rc = P##_aead_decrypt_finalize(&st, tag); \
    P##_aead_free(&st); \
    put(out, #P ".inc2", it, ct2, mlen); put(out, #P ".inc2.tag", it, tag, 16); \
    puti(out, #P ".inc2.dec", it, rc * 2 + (memcmp(pt, SH->msg + off, mlen) == 0)); \
}
AEAD_FAMILY(w_aead128, ascon128, 16)
AEAD_FAMILY(w_aead128a, ascon128a, 16)
AEAD_FAMILY(w_aead80pq, ascon80pq, 20)

// one-shot modes with a byte-string key owned by the thread (SIV)
#define SIV_FAMILY(NAME, P, KLEN) \
static void NAME(int it, Rng &d, Jitter *jit, Recs &out) \
{ \
    u8 key[KLEN], nonce[16], ct[400 + 16], pt[400]; \
    size_t mlen = (size_t)(d.next() % 200), adlen = (size_t)(d.next() % 40), off = (size_t)(d.next() % 1000); \
    size_t clen = 0, plen = 0; \
    d.fill(key, KLEN); d.fill(nonce, 16); \
    P##_siv_encrypt(ct, &clen, SH->msg + off, mlen, SH->ad, adlen, nonce, key); \
    JIT(); \
    int rc = P##_siv_decrypt(pt, &plen, ct, clen, SH->ad, adlen, nonce, key); \
    put(out, #P ".siv", it, ct, clen); \
    puti(out, #P ".siv.dec", it, rc * 4 + (plen == mlen) * 2 + (memcmp(pt, SH->msg + off, mlen) == 0)); \
}
SIV_FAMILY(w_siv128, ascon128, 16)
SIV_FAMILY(w_siv128a, ascon128a, 16)
SIV_FAMILY(w_siv80pq, ascon80pq, 20)

// modes keyed by a SHARED CONST key object (ISAP pre-computed key, masked key)
#define SHKEY_FAMILY(NAME, ENC, DEC, KEYOBJ, TAGNAME) \
static void NAME(int it, Rng &d, Jitter *jit, Recs &out) \
{ \
    u8 nonce[16], ct[400 + 16], pt[400]; \
    size_t mlen = (size_t)(d.next() % 160), adlen = (size_t)(d.next() % 40), off = (size_t)(d.next() % 1000); \
    size_t clen = 0, plen = 0; \
    d.fill(nonce, 16); \
    ENC(ct, &clen, SH->msg + off, mlen, SH->ad, adlen, nonce, &SH->KEYOBJ); \
    JIT(); \
    int rc = DEC(pt, &plen, ct, clen, SH->ad, adlen, nonce, &SH->KEYOBJ); \
    put(out, TAGNAME, it, ct, clen); \
    puti(out, TAGNAME ".dec", it, rc * 4 + (plen == mlen) * 2 + (memcmp(pt, SH->msg + off, mlen) == 0)); \
    if (clen) { ct[clen - 1] ^= 1; rc = DEC(pt, &plen, ct, clen, SH->ad, adlen, nonce, &SH->KEYOBJ); puti(out, TAGNAME ".bad", it, rc); } \
}
SHKEY_FAMILY(w_isap128, ascon128_isap_aead_encrypt, ascon128_isap_aead_decrypt, isap128, "isap128")
SHKEY_FAMILY(w_isap128a, ascon128a_isap_aead_encrypt, ascon128a_isap_aead_decrypt, isap128a, "isap128a")
SHKEY_FAMILY(w_isap80pq, ascon80pq_isap_aead_encrypt, ascon80pq_isap_aead_decrypt, isap80pq, "isap80pq")
SHKEY_FAMILY(w_masked128, ascon128_masked_aead_encrypt, ascon128_masked_aead_decrypt, mk128, "masked128")
SHKEY_FAMILY(w_masked128a, ascon128a_masked_aead_encrypt, ascon128a_masked_aead_decrypt, mk128, "masked128a")
SHKEY_FAMILY(w_masked80pq, ascon80pq_masked_aead_encrypt, ascon80pq_masked_aead_decrypt, mk160, "masked80pq")

static void w_maskedkey(int it, Rng &d, Jitter *jit, Recs &out)
{
    u8 k[20], k2[20];
    ascon_masked_key_128_extract(&SH->mk128, k);          // shared const
    JIT();
    ascon_masked_key_160_extract(&SH->mk160, k2);         // shared const
    put(out, "mkey128.extract", it, k, 16); put(out, "mkey160.extract", it, k2, 20);
    ascon_masked_key_128_t own; ascon_masked_key_160_t own2;
    d.fill(k, 20);
    ascon_masked_key_128_init(&own, k); JIT(); ascon_masked_key_128_randomize(&own);
    ascon_masked_key_128_extract(&own, k2); ascon_masked_key_128_free(&own);
    put(out, "mkey128.own", it, k2, 16);
    ascon_masked_key_160_init(&own2, k); JIT(); ascon_masked_key_160_randomize(&own2);
    ascon_masked_key_160_extract(&own2, k2); ascon_masked_key_160_free(&own2);
    put(out, "mkey160.own", it, k2, 20);
}

// an ISAP key of the thread's own: init / save / load / use / free
static void w_isapkey(int it, Rng &d, Jitter *jit, Recs &out)
{
    u8 key[20], saved[ASCON_ISAP_SAVED_KEY_SIZE], nonce[16], ct[64 + 16]; size_t clen = 0;
    d.fill(key, 20); d.fill(nonce, 16);
    ascon128_isap_aead_key_t pk, pk2;
    ascon128_isap_aead_init(&pk, key); JIT();
    ascon128_isap_aead_save_key(&pk, saved);
    ascon128_isap_aead_load_key(&pk2, saved); JIT();
    ascon128_isap_aead_encrypt(ct, &clen, SH->msg, 33, SH->ad, 5, nonce, &pk2);
    ascon128_isap_aead_free(&pk); ascon128_isap_aead_free(&pk2);
    put(out, "isapkey.saved", it, saved, sizeof(saved)); put(out, "isapkey.enc", it, ct, clen);
    ascon80pq_isap_aead_key_t qk;
    ascon80pq_isap_aead_init(&qk, key); JIT();
    ascon80pq_isap_aead_encrypt(ct, &clen, SH->msg + 7, 20, 0, 0, nonce, &qk);
    ascon80pq_isap_aead_free(&qk);
    put(out, "isapkey80.enc", it, ct, clen);
}

static void w_prf(int it, Rng &d, Jitter *jit, Recs &out)
{
    u8 key[16], o[64], tag[16];
    size_t len = (size_t)(d.next() % 120), off = (size_t)(d.next() % 1000);
    d.fill(key, 16);
    ascon_prf(o, 50, SH->msg + off, len, key); put(out, "prf", it, o, 50); JIT();
    ascon_prf_fixed(o, 24, SH->msg + off, len, key); put(out, "prf.fixed", it, o, 24);
    int rc = ascon_prf_short(o, 12, SH->msg + off, len % 17, key); put(out, "prf.short", it, o, 12); puti(out, "prf.short.rc", it, rc); JIT();
    ascon_mac(tag, SH->msg + off, len, key); put(out, "mac", it, tag, 16);
    puti(out, "mac.verify", it, ascon_mac_verify(tag, SH->msg + off, len, key));
    ascon_prf_state_t st;
    ascon_prf_init(&st, key); ascon_prf_absorb(&st, SH->msg + off, len / 2); JIT();
    ascon_prf_absorb(&st, SH->msg + off + len / 2, len - len / 2); ascon_prf_squeeze(&st, o, 9); ascon_prf_squeeze(&st, o + 9, 41);
    put(out, "prf.inc", it, o, 50);
    ascon_prf_fixed_reinit(&st, key, 24); ascon_prf_absorb(&st, SH->msg + off, len); ascon_prf_squeeze(&st, o, 24); ascon_prf_free(&st);
    put(out, "prf.inc.fixed", it, o, 24);
}

#define HMAC_FAMILY(NAME, H, HS) \
static void NAME(int it, Rng &d, Jitter *jit, Recs &out) \
{ \
    u8 key[80], o[32], o2[32]; \
    size_t klen = (size_t)(d.next() % 81), len = (size_t)(d.next() % 150), off = (size_t)(d.next() % 1000); \
    d.fill(key, 80); \
    H(o, key, klen, SH->msg + off, len); JIT(); \
    HS st; H##_init(&st, key, klen); H##_update(&st, SH->msg + off, len / 2); JIT(); \
    H##_update(&st, SH->msg + off + len / 2, len - len / 2); H##_finalize(&st, key, klen, o2); \
    put(out, #H, it, o, 32); put(out, #H ".inc", it, o2, 32); \
    H##_reinit(&st, SH->key, 20); H##_update(&st, SH->ad, 50); H##_finalize(&st, SH->key, 20, o2); H##_free(&st); \
    put(out, #H ".shkey", it, o2, 32); \
}
HMAC_FAMILY(w_hmac, ascon_hmac, ascon_hmac_state_t)
HMAC_FAMILY(w_hmaca, ascon_hmaca, ascon_hmaca_state_t)

#define KMAC_FAMILY(NAME, K, KS) \
static void NAME(int it, Rng &d, Jitter *jit, Recs &out) \
{ \
    u8 key[40], o[48], o2[48]; \
    size_t klen = 1 + (size_t)(d.next() % 40), len = (size_t)(d.next() % 150), off = (size_t)(d.next() % 1000); \
    d.fill(key, 40); \
    K(key, klen, SH->msg + off, len, SH->salt, 7, o, 48); JIT(); \
    KS st; K##_init(&st, key, klen, SH->salt, 7, 48); K##_absorb(&st, SH->msg + off, len); JIT(); \
    K##_squeeze(&st, o2, 20); K##_squeeze(&st, o2 + 20, 28); \
    put(out, #K, it, o, 48); put(out, #K ".inc", it, o2, 48); \
    K##_reinit(&st, SH->key, 20, 0, 0, 32); K##_absorb(&st, SH->ad, 33); K##_squeeze(&st, o2, 32); K##_free(&st); \
    put(out, #K ".shkey", it, o2, 32); \
}
KMAC_FAMILY(w_kmac, ascon_kmac, ascon_kmac_state_t)
KMAC_FAMILY(w_kmaca, ascon_kmaca, ascon_kmaca_state_t)

#define HKDF_FAMILY(NAME, H, HS) \
static void NAME(int it, Rng &d, Jitter *jit, Recs &out) \
{ \
    u8 key[32], o[100], o2[100]; \
    size_t olen = 1 + (size_t)(d.next() % 100); \
    d.fill(key, 32); \
    int rc = H(o, olen, key, 32, SH->salt, 24, SH->ad, 10); JIT(); \
    HS st; H##_extract(&st, key, 32, SH->salt, 24); JIT(); \
    int rc2 = H##_expand(&st, SH->ad, 10, o2, olen / 2); \
    rc2 += H##_expand(&st, SH->ad, 10, o2 + olen / 2, olen - olen / 2); H##_free(&st); \
    put(out, #H, it, o, olen); put(out, #H ".inc", it, o2, olen); puti(out, #H ".rc", it, rc * 16 + rc2); \
}
HKDF_FAMILY(w_hkdf, ascon_hkdf, ascon_hkdf_state_t)
HKDF_FAMILY(w_hkdfa, ascon_hkdfa, ascon_hkdfa_state_t)

#define KDF_FAMILY(NAME, K, KS, PB) \
static void NAME(int it, Rng &d, Jitter *jit, Recs &out) \
{ \
    u8 key[24], o[70], o2[70]; \
    d.fill(key, 24); \
    K(o, 70, key, 24, SH->salt, 9); put(out, #K, it, o, 70); JIT(); \
    KS st; K##_init(&st, key, 24, SH->salt, 9, 0); K##_squeeze(&st, o2, 33); JIT(); K##_squeeze(&st, o2 + 33, 37); \
    K##_reinit(&st, SH->key, 20, SH->salt, 24, 40); K##_squeeze(&st, o, 40); K##_free(&st); \
    put(out, #K ".inc", it, o2, 70); put(out, #K ".shkey", it, o, 40); \
    PB(o, 40, key, 11, SH->salt, 16, 1 + (unsigned long)(it % 3)); JIT(); \
    put(out, #PB, it, o, 40); \
}
KDF_FAMILY(w_kdf, ascon_kdf, ascon_kdf_state_t, ascon_pbkdf2)
KDF_FAMILY(w_kdfa, ascon_kdfa, ascon_kdfa_state_t, ascon_pbkdf2_hmac)

// the random number API: outputs are (by design) not reproducible, so only the
// status values and the absence of races are observed
static void w_random(int it, Rng &d, Jitter *jit, Recs &out)
{
    u8 b[48];
    (void)d;
    int rc = ascon_random(b, 24); JIT();
    ascon_random_state_t rs;
    int rc2 = ascon_random_init(&rs);
    ascon_random_fetch(&rs, b, 48); JIT();
    ascon_random_feed(&rs, SH->msg, 40);
    int rc3 = ascon_random_reseed(&rs);
    ascon_random_fetch(&rs, b, 16);
    ascon_random_free(&rs);
    puti(out, "random.rc", it, rc * 100 + rc2 * 10 + rc3);
}

static void w_util(int it, Rng &d, Jitter *jit, Recs &out)
{
    char hexs[2 * 40 + 1]; u8 back[40], nonce[16];
    size_t off = (size_t)(d.next() % 1000);
    int n = ascon_bytes_to_hex(hexs, sizeof(hexs), SH->msg + off, 40, it & 1); JIT();
    int m = ascon_bytes_from_hex(back, sizeof(back), hexs, (size_t)n);
    put(out, "hex", it, hexs, (size_t)(n > 0 ? n : 0)); puti(out, "hex.back", it, m * 2 + (m == 40 && memcmp(back, SH->msg + off, 40) == 0));
    memset(nonce, 0xff, 16); nonce[0] = (u8)it; ascon_aead_increment_nonce(nonce); ascon_aead_set_counter(nonce, d.next());
    put(out, "nonce", it, nonce, 16);
    ascon_clean(back, sizeof(back)); put(out, "clean", it, back, 40);
}

typedef void (*Work)(int, Rng &, Jitter *, Recs &);
static const Work WORKS[] = {
    w_perm, w_hash, w_hasha, w_xof, w_xofa, w_aead128, w_aead128a, w_aead80pq, w_siv128, w_siv128a, w_siv80pq,
    w_isap128, w_isap128a, w_isap80pq, w_masked128, w_masked128a, w_masked80pq, w_maskedkey, w_isapkey, w_prf,
    w_hmac, w_hmaca, w_kmac, w_kmaca, w_hkdf, w_hkdfa, w_kdf, w_kdfa, w_random, w_util };
static const int NWORKS = (int)(sizeof(WORKS) / sizeof(WORKS[0]));

// thread t's whole workload: a function of (seed, t, iters) and of the shared constants only
static void workload(int t, uint64_t seed, int iters, Jitter *jit, Recs &out)
{
    Rng d(seed * 1000003ULL + (uint64_t)t * 7919ULL + 1);
    for (int it = 0; it < iters; ++it) {
        int start = (t * 7 + it * 3) % NWORKS;           // threads are in different families at the same time
        for (int k = 0; k < NWORKS; ++k) {
            WORKS[(start + k) % NWORKS](it, d, jit, out);
            JIT();
        }
    }
}

static std::atomic<int> g_ready(0);
static std::atomic<int> g_go(0);

static void thread_main(int t, int n, uint64_t seed, int iters, Recs *out)
{
    Jitter jit(seed * 31 + (uint64_t)t * 1315423911ULL + (uint64_t)n);
    g_ready.fetch_add(1);
    while (!g_go.load()) sched_yield();
    workload(t, seed, iters, &jit, *out);
}

// detector self-test: an intentional unsynchronised counter; ThreadSanitizer must report it
static int g_canary = 0;
static void canary_thread() { for (int i = 0; i < 2000; ++i) { g_canary = g_canary + 1; if ((i & 255) == 0) sched_yield(); } }

int main(int argc, char **argv)
{
    if (argc > 1 && strcmp(argv[1], "canary") == 0) {
        std::thread a(canary_thread), b(canary_thread); a.join(); b.join();
        printf("CANARY %d\n", g_canary); return 0;
    }
    int n = argc > 1 ? atoi(argv[1]) : 4;
    uint64_t seed = argc > 2 ? strtoull(argv[2], 0, 10) : 1;
    int iters = argc > 3 ? atoi(argv[3]) : 2;
    if (n < 1 || n > 64 || iters < 1) { fprintf(stderr, "usage: x_threads <threads 1..64> <seed> <iterations>\n"); return 2; }
    setup_shared(seed);
    Shared before;                      // the shared objects must still hold these bytes at the end
    memcpy(&before, &g_shared_storage, sizeof(Shared));

    std::vector<Recs> ref((size_t)n), got((size_t)n);
    for (int t = 0; t < n; ++t) {
        workload(t, seed, iters, 0, ref[(size_t)t]);
        ascon_hash_state_t h; u8 dg[32]; char hx[65];
        ascon_hash_init(&h);
        for (size_t k = 0; k < ref[(size_t)t].size(); ++k)
            ascon_hash_update(&h, ref[(size_t)t][k].b.data(), ref[(size_t)t][k].b.size());
        ascon_hash_finalize(&h, dg);
        ascon_bytes_to_hex(hx, sizeof(hx), dg, 32, 0);
        printf("DIGEST t=%d %s\n", t, hx);
    }
    std::vector<std::thread> th;
    for (int t = 0; t < n; ++t) th.push_back(std::thread(thread_main, t, n, seed, iters, &got[(size_t)t]));
    while (g_ready.load() < n) sched_yield();
    g_go.store(1);
    for (int t = 0; t < n; ++t) th[(size_t)t].join();

    long mism = 0; size_t records = 0, bytes = 0;
    for (int t = 0; t < n; ++t) {
        const Recs &a = ref[(size_t)t], &b = got[(size_t)t];
        if (a.size() != b.size()) { printf("MISMATCH thread=%d record-count %zu != %zu\n", t, b.size(), a.size()); ++mism; }
        for (size_t k = 0; k < a.size() && k < b.size(); ++k) {
            ++records; bytes += a[k].b.size();
            if (a[k].b != b[k].b || strcmp(a[k].op, b[k].op) != 0) {
                if (mism < 20) printf("MISMATCH thread=%d record=%zu op=%s iter=%d\n", t, k, a[k].op, a[k].iter);
                ++mism;
            }
        }
    }
    if (memcmp(&before, &g_shared_storage, sizeof(Shared)) != 0) {
        const u8 *x = (const u8 *)&before, *y = (const u8 *)&g_shared_storage; size_t i = 0;
        while (x[i] == y[i]) ++i;
        printf("MISMATCH shared-object-modified byte-offset=%zu of %zu\n", i, sizeof(Shared));
        ++mism;
    }
    if (mism) { printf("FAILED threads=%d seed=%llu iters=%d mismatches=%ld\n", n, (unsigned long long)seed, iters, mism); return 1; }
    printf("OK threads=%d seed=%llu iters=%d records=%zu bytes=%zu families=%d\n", n, (unsigned long long)seed, iters, records, bytes, NWORKS);
    return 0;
}
