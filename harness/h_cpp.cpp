// C17: the C++ classes of ascon-suite against
//   (a) the direct C call under the DOCUMENTED key and nonce (a shadow of the
//       documented meaning of every constructor / set_key / set_nonce /
//       set_counter / packet is kept next to the object: "doc="),
//   (b) the direct C call under the key object and nonce the object actually
//       holds ("fwd="), with the held key and nonce printed after every call,
//       which is what coq/Model/Cppm.v (extracted, ocaml/drv_cpp.ml) predicts.
// Operations: CPX (cipher classes), XOFX / HSHX (xof*/hash* classes and
// templates), UTL (utility.h helpers).  Private members are read through the
// harness-only `#define private public` (DESIGN section 6).
// Members that do not compile on the pinned tree (xofa absorb(const char*),
// absorb(std::string)) are only used when C17_XOFA_STRING_OK is defined; the
// compile coverage of tools/gen_cpp_members.py decides that.
// With -DASCON_NO_STL (the second, "nostl" harness of lib/p_c17.py: this file +
// main.cpp + h_trng.cpp, linked with src/cplusplus/*.cpp compiled with the same
// definition) ascon::byte_array is the library's own class: byte arrays are
// then built with mk_ba(), and the members that only exist with the STL
// (std::string overloads, bytes_to_hex) answer / are marked SKIPPED-NOSTL.
// With -DARDUINO=10819 (the third, "arduino" harness of lib/p_c17.py: the same sources and
// src/cplusplus/*.cpp compiled with that definition against the stub harness/arduino_stub,
// a functional stand-in for the Arduino core's String) utility.h defines ASCON_NO_STL itself
// and the headers declare the String overloads: AS / US (the std::string tokens) then run
// through absorb(const String &) / update(const String &), TOHEX / TOHEXD through the
// bytes_to_hex functions returning String, FROMHEX S through bytes_from_hex(const String &),
// and AC / UC / FROMHEX C with a non-null text go, on the toss of ba_coin(), through a String
// built from the text instead of the const char * overload.  Every printed line must equal
// the default build's line (no SKIPPED-NOSTL marker appears): same bytes, same result.
#include "hx.h"
#include <string>
#include <vector>
#include <new>
#include <unistd.h>
#include <sys/wait.h>
#define private public
#define protected public
#include <ascon/aead.h>
#include <ascon/aead-masked.h>
#include <ascon/masking.h>
#include <ascon/siv.h>
#include <ascon/isap.h>
#include <ascon/hash.h>
#include <ascon/xof.h>
#include <ascon/utility.h>
#undef private
#undef protected

typedef std::vector<unsigned char> Bytes;
static std::vector<std::string> split(const std::string &s, char sep) {
    std::vector<std::string> v; size_t i = 0;
    for (;;) { size_t j = s.find(sep, i); if (j == std::string::npos) { v.push_back(s.substr(i)); break; }
               v.push_back(s.substr(i, j - i)); i = j + 1; }
    return v;
}
static const unsigned char JUNK = 0xC7;     // storage contents before construction (Model: junk)
static const unsigned char BAOLD = 0xDD;    // old contents (3 bytes) of an output byte_array

// an ascon::byte_array holding the given bytes.  The library's own class (ASCON_NO_STL) has no iterator-range
// constructor; an empty one is either the default-constructed array (no buffer, data() == 0, like an empty
// std::vector) or a zero-sized array that owns a buffer: ba_coin(), a function of the text of the line and of the
// number of earlier tosses in it, decides (the printed result must not depend on it).
static unsigned g_ba_alt = 0;
static void ba_line(const Toks &t) { unsigned h = 0; for (size_t i = 0; i < t.size(); ++i) for (size_t j = 0; j < t[i].size(); ++j) h = h * 31u + (unsigned char)t[i][j]; g_ba_alt = h; }
static bool ba_coin() { g_ba_alt = g_ba_alt * 1103515245u + 12345u; return ((g_ba_alt >> 16) & 1u) != 0; }
static ascon::byte_array mk_ba(const Bytes &v) {
#if defined(ASCON_NO_STL)
    if (v.empty() && ba_coin()) return ascon::byte_array();
    ascon::byte_array b(v.size());
    if (!v.empty()) memcpy(b.data(), v.data(), v.size());
    return b;
#else
    return ascon::byte_array(v.begin(), v.end());
#endif
}
// In half of the calls the output array shares its buffer with a copy taken before the call (the library's own class
// counts references; std::vector copies): the copy must keep the old contents, whatever the call does to the output.
#if defined(ARDUINO)
// the String holding exactly these characters (appended one by one: may contain NULs, like a real String)
static String mk_string(const unsigned char *p, size_t n) { String s; for (size_t i = 0; i < n; ++i) s += (char)p[i]; return s; }
static String mk_string(const Bytes &v) { return mk_string(v.data(), v.size()); }
#endif
static ascon::byte_array ba_keep(const ascon::byte_array &out) { return ba_coin() ? ascon::byte_array(out) : ascon::byte_array(3, BAOLD); }
static bool ba_old(const ascon::byte_array &keep) { return keep.size() == 3 && keep.data()[0] == BAOLD && keep.data()[1] == BAOLD && keep.data()[2] == BAOLD; }

// a pointer argument: NULL or a buffer of exactly the given bytes
struct Ptr {
    bool null; Bytes b; Buf *buf;
    explicit Ptr(const std::string &tok) : null(tok == "NULL"), buf(0) { if (!null) { b = unhex(tok); buf = new Buf(b); } }
    ~Ptr() { delete buf; }
    const unsigned char *p() const { return null ? 0 : buf->p; }
private: Ptr(const Ptr &); Ptr &operator=(const Ptr &);
};

// Everything handed to the library is a caller buffer of EXACTLY the documented size (hx.h Buf: exact heap block under
// VERIF_EXACT, misaligned under VERIF_MISALIGN, canaries otherwise): KBUF = key bytes, NBUF = a 16-byte nonce, OBJ = a C key
// object (masked key, expanded ISAP key) copied into an exact, aligned block of its own.
#define KBUF(name, src, len) Buf name(len); memcpy(name.p, (src), (len))
#define NBUF(name, src) Buf name(16); memcpy(name.p, (src), 16)
#define OBJ(name, T, src) Buf name(sizeof(T), false, 0xEE, true); memcpy(name.p, (src), sizeof(T))

// ---- the twelve classes ---------------------------------------------------
struct Doc { bool kknown, nknown, saved; Bytes key; unsigned char nonce[16]; };

#define ENCARGS unsigned char *c, size_t *clen, const unsigned char *m, size_t mlen, const unsigned char *ad, size_t adlen, const unsigned char *n
#define DECARGS unsigned char *m, size_t *mlen, const unsigned char *c, size_t clen, const unsigned char *ad, size_t adlen, const unsigned char *n

// storage for a copy of any class's C key object
struct KeyObj { union { unsigned char raw[640]; uint64_t align; } u; };

// type-erased view of one cipher class (the member calls themselves go
// through ascon::aead, whose members are virtual / shared by all classes)
struct Cls {
    size_t K, objsize; bool isap, masked, model;
    virtual ~Cls() {}
    virtual ascon::aead *make_default(void *st) = 0;
    virtual ascon::aead *make_key(void *st, const unsigned char *k, size_t len) = 0;
    virtual void grab(ascon::aead &o, KeyObj &ko, unsigned char *n) = 0;      // the key object and nonce the object holds
    virtual void from_doc(KeyObj &ko, const Doc &d) = 0;                        // the C key object of a documented key
    virtual Bytes image(KeyObj &ko) = 0;                                        // key bytes / extracted value / save_key image
    virtual void enc(ENCARGS, const KeyObj &ko) = 0;
    virtual int dec(DECARGS, const KeyObj &ko) = 0;
    virtual void save(ascon::aead &o, unsigned char *s) = 0;
    virtual void randomize(ascon::aead &o) = 0;
};

#define PLAIN_CLS(CLS, KS, ENC, DEC, MODEL)                                                                 \
struct Cls_##CLS : Cls { typedef ascon::CLS C;                                                              \
    Cls_##CLS() { K = KS; objsize = sizeof(C); isap = false; masked = false; model = MODEL; }               \
    ascon::aead *make_default(void *st) { return new (st) C(); }                                            \
    ascon::aead *make_key(void *st, const unsigned char *k, size_t) { return new (st) C(k); }               \
    void grab(ascon::aead &o, KeyObj &ko, unsigned char *n) { C &c = static_cast<C &>(o); memcpy(ko.u.raw, c.m_state.key, KS); memcpy(n, c.m_state.nonce, 16); } \
    void from_doc(KeyObj &ko, const Doc &d) { memcpy(ko.u.raw, d.key.data(), KS); }                         \
    Bytes image(KeyObj &ko) { return Bytes(ko.u.raw, ko.u.raw + KS); }                                      \
    void enc(ENCARGS, const KeyObj &ko) { KBUF(kb, ko.u.raw, KS); NBUF(nb, n); ENC(c, clen, m, mlen, ad, adlen, nb.p, kb.p); } \
    int dec(DECARGS, const KeyObj &ko) { KBUF(kb, ko.u.raw, KS); NBUF(nb, n); return DEC(m, mlen, c, clen, ad, adlen, nb.p, kb.p); } \
    void save(ascon::aead &, unsigned char *) {}                                                            \
    void randomize(ascon::aead &) {} };

#define MASKED_CLS(CLS, KS, MK, ENC, DEC)                                                                   \
struct Cls_##CLS : Cls { typedef ascon::CLS C; typedef MK##_t MKT;                                          \
    Cls_##CLS() { K = KS; objsize = sizeof(C); isap = false; masked = true; model = true; }                 \
    ascon::aead *make_default(void *st) { return new (st) C(); }                                            \
    ascon::aead *make_key(void *st, const unsigned char *k, size_t) { return new (st) C(k); }               \
    void grab(ascon::aead &o, KeyObj &ko, unsigned char *n) { C &c = static_cast<C &>(o); memcpy(ko.u.raw, &c.m_key, sizeof(MKT)); memcpy(n, c.m_nonce, 16); } \
    void from_doc(KeyObj &ko, const Doc &d) { KBUF(kb, d.key.data(), KS); Buf ob(sizeof(MKT), false, 0xEE, true);  \
        MK##_init((MKT *)ob.p, kb.p); memcpy(ko.u.raw, ob.p, sizeof(MKT)); }                                \
    Bytes image(KeyObj &ko) { OBJ(ob, MKT, ko.u.raw); Buf v(KS); MK##_extract((const MKT *)ob.p, v.p); return Bytes(v.p, v.p + KS); } \
    void enc(ENCARGS, const KeyObj &ko) { OBJ(ob, MKT, ko.u.raw); NBUF(nb, n); ENC(c, clen, m, mlen, ad, adlen, nb.p, (const MKT *)ob.p); } \
    int dec(DECARGS, const KeyObj &ko) { OBJ(ob, MKT, ko.u.raw); NBUF(nb, n); return DEC(m, mlen, c, clen, ad, adlen, nb.p, (const MKT *)ob.p); } \
    void save(ascon::aead &, unsigned char *) {}                                                            \
    void randomize(ascon::aead &o) { static_cast<C &>(o).randomize_key(); } };

#define ISAP_CLS(CLS, KS, PFX)                                                                              \
struct Cls_##CLS : Cls { typedef ascon::CLS C; typedef PFX##_key_t PKT;                                     \
    Cls_##CLS() { K = KS; objsize = sizeof(C); isap = true; masked = false; model = false; }                \
    ascon::aead *make_default(void *st) { return new (st) C(); }                                            \
    ascon::aead *make_key(void *st, const unsigned char *k, size_t len) { return new (st) C(k, len); }      \
    void grab(ascon::aead &o, KeyObj &ko, unsigned char *n) { C &c = static_cast<C &>(o); memcpy(ko.u.raw, &c.m_key, sizeof(PKT)); memcpy(n, c.m_nonce, 16); } \
    void from_doc(KeyObj &ko, const Doc &d) { KBUF(kb, d.key.data(), d.saved ? (size_t)ASCON_ISAP_SAVED_KEY_SIZE : (size_t)KS);  \
        Buf ob(sizeof(PKT), false, 0xEE, true);                                                             \
        if (d.saved) PFX##_load_key((PKT *)ob.p, kb.p); else PFX##_init((PKT *)ob.p, kb.p);                 \
        memcpy(ko.u.raw, ob.p, sizeof(PKT)); }                                                              \
    Bytes image(KeyObj &ko) { OBJ(ob, PKT, ko.u.raw); Buf v(ASCON_ISAP_SAVED_KEY_SIZE); PFX##_save_key((PKT *)ob.p, v.p);  \
        return Bytes(v.p, v.p + ASCON_ISAP_SAVED_KEY_SIZE); }                                               \
    void enc(ENCARGS, const KeyObj &ko) { OBJ(ob, PKT, ko.u.raw); NBUF(nb, n); PFX##_encrypt(c, clen, m, mlen, ad, adlen, nb.p, (const PKT *)ob.p); } \
    int dec(DECARGS, const KeyObj &ko) { OBJ(ob, PKT, ko.u.raw); NBUF(nb, n); return PFX##_decrypt(m, mlen, c, clen, ad, adlen, nb.p, (const PKT *)ob.p); } \
    void save(ascon::aead &o, unsigned char *s) { Buf sb(ASCON_ISAP_SAVED_KEY_SIZE); static_cast<C &>(o).save_key(sb.p); memcpy(s, sb.p, ASCON_ISAP_SAVED_KEY_SIZE); } \
    void randomize(ascon::aead &) {} };

PLAIN_CLS(aead128, 16, ascon128_aead_encrypt, ascon128_aead_decrypt, true)
PLAIN_CLS(aead128a, 16, ascon128a_aead_encrypt, ascon128a_aead_decrypt, true)
PLAIN_CLS(aead80pq, 20, ascon80pq_aead_encrypt, ascon80pq_aead_decrypt, true)
PLAIN_CLS(siv128, 16, ascon128_siv_encrypt, ascon128_siv_decrypt, false)
PLAIN_CLS(siv128a, 16, ascon128a_siv_encrypt, ascon128a_siv_decrypt, false)
PLAIN_CLS(siv80pq, 20, ascon80pq_siv_encrypt, ascon80pq_siv_decrypt, false)
MASKED_CLS(aead128_masked, 16, ascon_masked_key_128, ascon128_masked_aead_encrypt, ascon128_masked_aead_decrypt)
MASKED_CLS(aead128a_masked, 16, ascon_masked_key_128, ascon128a_masked_aead_encrypt, ascon128a_masked_aead_decrypt)
MASKED_CLS(aead80pq_masked, 20, ascon_masked_key_160, ascon80pq_masked_aead_encrypt, ascon80pq_masked_aead_decrypt)
ISAP_CLS(isap128, 16, ascon128_isap_aead)
ISAP_CLS(isap128a, 16, ascon128a_isap_aead)
ISAP_CLS(isap80pq, 20, ascon80pq_isap_aead)

// incremental output (the line is produced in a child process; what was
// written before a crash is kept)
struct Out { int fd; void put(const std::string &s) { size_t o = 0; while (o < s.size()) { ssize_t w = write(fd, s.data() + o, s.size() - o); if (w <= 0) break; o += (size_t)w; } } };

// memcmp without the nonnull contract (empty vectors have a null data())
static bool same(const unsigned char *a, const unsigned char *b, size_t n) { return n == 0 || memcmp(a, b, n) == 0; }

static void incr(unsigned char *n) { for (int i = 15; i >= 0; --i) { if (++n[i] != 0) break; } }

struct Run {
    Cls &x;
    explicit Run(Cls &c) : x(c), o(0), idx(0) {}
    typedef ascon::aead C;
    std::vector<Bytes> cands;      // raw keys that may be inside an ISAP key object
    Doc doc;
    C *o;
    std::string dev;               // first deviation from the documentation
    size_t idx;

    void note(const char *what) { if (dev.empty()) dev = "DEV@" + std::to_string(idx) + ":" + what; }

    std::string keyid_img(const Bytes &img) {
        if (!x.isap) return hex(img);
        for (size_t i = 0; i < cands.size(); ++i) {
            Doc d; d.saved = false; d.key = cands[i]; KeyObj ko; x.from_doc(ko, d);
            if (x.image(ko) == img) return "I" + hex(cands[i]);
        }
        return "L" + hex(img);
    }
    std::string keyid() { KeyObj ko; unsigned char n[16]; x.grab(*o, ko, n); return keyid_img(x.image(ko)); }
    std::string docid() {
        if (!x.isap) return hex(doc.key);
        if (!doc.saved) return "I" + hex(doc.key);
        return keyid_img(doc.key);
    }
    std::string nonce() { KeyObj ko; unsigned char n[16]; x.grab(*o, ko, n); return hex(n, 16); }
    void check_state() {
        if (doc.kknown && keyid() != docid()) note("key");
        if (doc.nknown && nonce() != hex(doc.nonce, 16)) note("nonce");
    }
    void add_cand(const Bytes &b) { if (b.size() >= x.K) cands.push_back(Bytes(b.begin(), b.begin() + x.K)); }

    // documented meaning of set_key(p, len): 1 true, 0 false, -1 not a legal call
    int doc_set_key(const Ptr &p, size_t len) {
        if (len == 0) { doc.kknown = true; doc.saved = false; doc.key.assign(x.K, 0); return 1; }
        if (len == x.K || (x.isap && len == 80)) {
            if (p.null) return 0;
            if (p.b.size() < len) return -1;
            doc.kknown = true; doc.saved = (len != x.K); doc.key.assign(p.b.begin(), p.b.begin() + len); return 1;
        }
        return 0;
    }

    // ciphertext under the documented state, with a mutation
    Bytes doc_ciphertext(const Bytes &ad, const Bytes &m, const std::string &mut, Bytes &ad_used) {
        KeyObj dko; x.from_doc(dko, doc);
        Buf bm(m, true), bad(ad, true), c(m.size() + 16); size_t clen = 0;
        x.enc(c.p, &clen, bm.p, bm.n, bad.p, bad.n, doc.nonce, dko);
        Bytes ct(c.p, c.p + m.size() + 16);
        ad_used = ad;
        if (mut == "ok") {}
        else if (mut.compare(0, 4, "flip") == 0) { size_t i = (size_t)atol(mut.c_str() + 4) % (ct.size() * 8); ct[i / 8] ^= (unsigned char)(0x80 >> (i % 8)); }
        else if (mut.compare(0, 5, "trunc") == 0) { size_t k = (size_t)atol(mut.c_str() + 5); ct.resize(k >= ct.size() ? 0 : ct.size() - k); }
        else if (mut.compare(0, 5, "short") == 0) { size_t k = (size_t)atol(mut.c_str() + 5); ct.resize(k < ct.size() ? k : ct.size()); }
        else if (mut == "ext") ct.push_back(0);
        else if (mut == "adflip") { if (ad_used.empty()) ad_used.push_back(1); else ad_used[0] ^= 1; }
        return ct;
    }

    std::string go(const Toks &t, Out &out) {
        Buf storeb(x.objsize, false, JUNK, true);        // the C++ object lives in a block of exactly sizeof(class) bytes
        unsigned char *store = storeb.p;
        cands.push_back(Bytes(x.K, 0));
        // candidates for ISAP key recognition: every pointer content / raw key in the line
        for (size_t i = 2; i < t.size(); ++i) {
            std::vector<std::string> f = split(t[i], ':');
            if ((f[0] == "K" || f[0] == "KL" || f[0] == "SK") && f.size() > 1 && f[1] != "NULL") add_cand(unhex(f[1]));
            if ((f[0] == "KLS" || f[0] == "SKS") && f.size() > 1) add_cand(unhex(f[1]));
        }
        doc.kknown = doc.nknown = true; doc.saved = false; doc.key.assign(x.K, 0); memset(doc.nonce, 0, 16);
        idx = 0;
        // ---- constructor
        {
            std::vector<std::string> f = split(t[2], ':');
            if (f[0] == "D") o = x.make_default(store);
            else if (f[0] == "K") {                      // T(key): documented for plain/masked/siv
                Ptr p(f[1]); o = x.make_key(store, p.p(), x.K);
                if (!p.null) doc.key.assign(p.b.begin(), p.b.begin() + x.K);
            } else if (f[0] == "KL") {                   // T(key, len): ISAP
                Ptr p(f[1]); size_t len = (size_t)atol(f[2].c_str());
                o = x.make_key(store, p.p(), len);
                if (len == x.K) doc.key.assign(p.b.begin(), p.b.begin() + x.K);
                else if (len == 80) { doc.saved = true; doc.key.assign(p.b.begin(), p.b.begin() + 80); }
            } else if (f[0] == "KLS") {                  // T(saved, 80), saved = save_key() of another object
                Bytes raw = unhex(f[1]); Buf rb(raw);
                unsigned char s[ASCON_ISAP_SAVED_KEY_SIZE];
                { Buf ts(x.objsize, false, JUNK, true); C *tmp = x.make_default(ts.p); tmp->set_key(rb.p, x.K); x.save(*tmp, s); tmp->~C(); }
                { KBUF(sb, s, sizeof(s)); o = x.make_key(store, sb.p, sizeof(s)); }
                doc.saved = true; doc.key.assign(s, s + sizeof(s));
            } else return "BADCTOR";
            out.put("C[ks=" + std::to_string(o->key_size()) + ",ts=" + std::to_string(o->tag_size()) + ",ns=" + std::to_string(o->nonce_size())
                    + ",k=" + keyid() + ",n=" + nonce() + "]");
            check_state();
        }
        // ---- member calls
        for (size_t i = 3; i < t.size(); ++i) {
            idx = i - 2;
            std::vector<std::string> f = split(t[i], ':');
            const std::string &op = f[0];
            if (op == "SK") {
                Ptr p(f[1]); size_t len = (size_t)atol(f[2].c_str());
                bool r = o->set_key(p.p(), len);
                int dr = doc_set_key(p, len);
                out.put(" SK[r=" + std::to_string(r ? 1 : 0) + ",k=" + keyid() + "]");
                if (dr >= 0 && (dr == 1) != r) note("ret");
            } else if (op == "SKS") {
                Bytes raw = unhex(f[1]); Buf rb(raw);
                unsigned char s[ASCON_ISAP_SAVED_KEY_SIZE];
                { Buf ts(x.objsize, false, JUNK, true); C *tmp = x.make_default(ts.p); tmp->set_key(rb.p, x.K); x.save(*tmp, s); tmp->~C(); }
                bool r; { KBUF(sb, s, sizeof(s)); r = o->set_key(sb.p, sizeof(s)); }
                doc.kknown = true; doc.saved = true; doc.key.assign(s, s + sizeof(s));
                out.put(" SK[r=" + std::to_string(r ? 1 : 0) + ",k=" + keyid() + "]");
                if (!r) note("ret");
            } else if (op == "SN") {
                Ptr p(f[1]); size_t len = (size_t)atol(f[2].c_str());
                o->set_nonce(p.p(), len);
                memset(doc.nonce, 0, 16); doc.nknown = true;
                if (len >= 16) memcpy(doc.nonce, p.b.data(), 16); else if (len) memcpy(doc.nonce + 16 - len, p.b.data(), len);
                out.put(" SN[n=" + nonce() + "]");
            } else if (op == "SC") {
                uint64_t v = strtoull(f[1].c_str(), 0, 16);      // SC:<hex digits>
                o->set_counter(v);
                memset(doc.nonce, 0, 16); doc.nknown = true;
                for (int j = 0; j < 8; ++j) doc.nonce[15 - j] = (unsigned char)(v >> (8 * j));
                out.put(" SC[n=" + nonce() + "]");
            } else if (op == "RK") {
                x.randomize(*o);
                out.put(" RK[k=" + keyid() + "]");
            } else if (op == "CL") {
                o->clear(); doc.kknown = doc.nknown = false;
                out.put(" CL[k=" + keyid() + ",n=" + nonce() + "]");
            } else if (op == "E" || op == "E3" || op == "EB" || op == "EB2") {
                bool ba = op[1] == 'B'; bool noad = (op == "E3" || op == "EB2");
                Bytes ad = noad ? Bytes() : unhex(f[1]); Bytes m = unhex(f[noad ? 1 : 2]);
                KeyObj ko; unsigned char n0[16]; x.grab(*o, ko, n0);
                Bytes got; long r;
                if (!ba) {
                    Buf bm(m, true), bad(ad, true), c(m.size() + 16);
                    r = noad ? o->encrypt(c.p, bm.p, bm.n) : o->encrypt(c.p, bm.p, bm.n, bad.p, bad.n);
                    got.assign(c.p, c.p + m.size() + 16);
                } else {
                    ascon::byte_array bc(3, BAOLD), bm(mk_ba(m)), bad(mk_ba(ad)), keep(ba_keep(bc));
                    if (noad) o->encrypt(bc, bm); else o->encrypt(bc, bm, bad);
                    got.assign(bc.begin(), bc.end()); r = (long)bc.size();
                    if (!ba_old(keep) || bm.size() != m.size() || !same(bm.data(), m.data(), m.size())) out.put(" EB-ARGS-CHANGED");
                }
                // (b) the C function under the state the object held
                Buf bm2(m, true), bad2(ad, true), c2(m.size() + 16); size_t clen2 = 0;
                x.enc(c2.p, &clen2, bm2.p, bm2.n, bad2.p, bad2.n, n0, ko);
                bool fwd = (size_t)r == clen2 && got.size() == clen2 && same(got.data(), c2.p, clen2);
                out.put(std::string(ba ? " EB[len=" : " E[r=") + std::to_string(r) + ",n=" + nonce() + ",fwd=" + (fwd ? "ok" : "BAD")
                        + (x.model ? ",c=" + hex(got) : std::string()) + "]");
                // (a) the C function under the documented state
                if (doc.kknown && doc.nknown) {
                    KeyObj dko; x.from_doc(dko, doc);
                    Buf c3(m.size() + 16); size_t clen3 = 0;
                    x.enc(c3.p, &clen3, bm2.p, bm2.n, bad2.p, bad2.n, doc.nonce, dko);
                    if ((size_t)r != clen3) note("ret");
                    else if (got.size() != clen3 || !same(got.data(), c3.p, clen3)) note("out");
                    incr(doc.nonce);
                }
            } else if (op == "DV" || op == "D3" || op == "DB" || op == "DB2") {
                bool ba = op[1] == 'B'; bool noad = (op == "D3" || op == "DB2");
                Bytes ad0 = noad ? Bytes() : unhex(f[1]); Bytes m0 = unhex(f[noad ? 1 : 2]); std::string mut = f[noad ? 2 : 3];
                if (noad && mut == "adflip") mut = "flip0";
                Bytes ad; Bytes ct = doc_ciphertext(ad0, m0, mut, ad);
                KeyObj ko; unsigned char n0[16]; x.grab(*o, ko, n0);
                size_t cap = ct.size() >= 16 ? ct.size() - 16 : 8;
                Buf bc(ct, true), bad(ad, true);
                long r; std::string ms; Bytes got; bool fwd;
                // the C function under the held state / the documented state
                Buf m2(cap), m3(cap); size_t mlen2 = 0, mlen3 = 0;
                int r2 = x.dec(m2.p, &mlen2, bc.p, bc.n, bad.p, bad.n, n0, ko);
                KeyObj dko; x.from_doc(dko, doc);
                int r3 = x.dec(m3.p, &mlen3, bc.p, bc.n, bad.p, bad.n, doc.nonce, dko);
                if (!ba) {
                    Buf mb(cap);
                    r = noad ? o->decrypt(mb.p, bc.p, bc.n) : o->decrypt(mb.p, bc.p, bc.n, bad.p, bad.n);
                    got.assign(mb.p, mb.p + cap);
                    if (ct.size() < 16) ms = mb.untouched() ? "u" : "W";
                    else if (r >= 0) ms = hex(got);
                    else { bool z = true; for (size_t j = 0; j < cap; ++j) if (got[j]) z = false; ms = cap == 0 ? "-" : (z ? "z" : hex(got)); }
                    fwd = (r2 >= 0 ? r == (long)mlen2 : r == -1) && same(mb.p, m2.p, cap);
                    out.put(" D[r=" + std::to_string(r) + ",n=" + nonce() + ",fwd=" + (fwd ? "ok" : "BAD") + ",m=" + ms + "]");
                    if (doc.kknown && doc.nknown) {
                        if (r3 >= 0 ? r != (long)mlen3 : r != -1) note("ret");
                        else if (!same(mb.p, m3.p, cap)) note("out");
                    }
                } else {
                    ascon::byte_array bm(3, BAOLD), bct(mk_ba(ct)), badv(mk_ba(ad)), keep(ba_keep(bm));
                    bool ok = noad ? o->decrypt(bm, bct) : o->decrypt(bm, bct, badv);
                    got.assign(bm.begin(), bm.end());
                    if (!ba_old(keep) || bct.size() != ct.size() || !same(bct.data(), ct.data(), ct.size())) out.put(" DB-ARGS-CHANGED");
                    fwd = ok ? (r2 >= 0 && got.size() == mlen2 && same(got.data(), m2.p, mlen2)) : (r2 < 0 && got.empty());
                    out.put(" DB[r=" + std::to_string(ok ? 1 : 0) + ",len=" + std::to_string(got.size()) + ",n=" + nonce() + ",fwd=" + (fwd ? "ok" : "BAD")
                            + ",m=" + hex(got) + "]");
                    if (doc.kknown && doc.nknown) {
                        if (ok != (r3 >= 0)) note("ret");
                        else if (ok ? (got.size() != mlen3 || !same(got.data(), m3.p, mlen3)) : !got.empty()) note("out");
                    }
                }
                if (doc.kknown && doc.nknown && r3 >= 0) incr(doc.nonce);
            } else { out.put(" BADOP"); }
            check_state();
        }
        o->~C();
        return " doc=" + (dev.empty() ? std::string("ok") : dev);
    }
};

static std::string forked(Cls &x, const Toks &t) {
    int fds[2];
    if (pipe(fds) != 0) return "ERR pipe";
    fflush(stdout);
    pid_t pid = fork();
    if (pid < 0) return "ERR fork";
    if (pid == 0) {
        close(fds[0]);
        Out out; out.fd = fds[1];
        Run r(x); std::string tail;
        try { tail = r.go(t, out); } catch (std::exception &e) { tail = std::string(" ERR ") + e.what(); }
        if (g_canary_failed) tail += " CANARY";
        out.put(tail);
        _exit(0);
    }
    close(fds[1]);
    std::string s; char buf[4096]; ssize_t n;
    while ((n = read(fds[0], buf, sizeof(buf))) > 0) s.append(buf, (size_t)n);
    close(fds[0]);
    int st = 0; waitpid(pid, &st, 0);
    if (!(WIFEXITED(st) && WEXITSTATUS(st) == 0)) {
        // the call in progress crashed: its index is the number of completed parts
        size_t done = 0; for (size_t i = 0; i < s.size(); ++i) if (s[i] == ']') ++done;
        s += std::string(s.empty() ? "" : " ") + "FAULT doc=DEV@" + std::to_string(done) + ":fault";
    }
    return s;
}

static std::string op_cpx(const Toks &t) {
    const std::string &c = t[1];
    ba_line(t);
#define DISPATCH(N) if (c == #N) { static Cls_##N x; return forked(x, t); }
    DISPATCH(aead128) DISPATCH(aead128a) DISPATCH(aead80pq)
    DISPATCH(aead128_masked) DISPATCH(aead128a_masked) DISPATCH(aead80pq_masked)
    DISPATCH(siv128) DISPATCH(siv128a) DISPATCH(siv80pq)
    DISPATCH(isap128) DISPATCH(isap128a) DISPATCH(isap80pq)
    return "UNSUPPORTED";
}
static Reg r_cpx("CPX", op_cpx);

// ---- xof_with_output_length<L>, xofa_with_output_length<L> ------------------
// XOFX <xof|xofa> <L> <ctor> <member calls...> | <C calls predicted by the model...>
// The C++ members run on a C++ object, the C calls on a C state; all outputs
// and 24 further squeezed bytes must agree.
struct XofC {   // the C API of ASCON-XOF
    typedef ascon_xof_state_t S;
    static void init(S *s) { ascon_xof_init(s); } static void init_fixed(S *s, size_t n) { ascon_xof_init_fixed(s, n); }
    static void init_custom(S *s, const char *f, const unsigned char *c, size_t cl, size_t n) { ascon_xof_init_custom(s, f, c, cl, n); }
    static void reinit(S *s) { ascon_xof_reinit(s); } static void reinit_fixed(S *s, size_t n) { ascon_xof_reinit_fixed(s, n); }
    static void absorb(S *s, const unsigned char *d, size_t n) { ascon_xof_absorb(s, d, n); }
    static void squeeze(S *s, unsigned char *d, size_t n) { ascon_xof_squeeze(s, d, n); }
    static void pad(S *s) { ascon_xof_pad(s); } static void copy(S *d, const S *s) { ascon_xof_copy(d, s); } static void free_(S *s) { ascon_xof_free(s); }
};
struct XofaC {
    typedef ascon_xofa_state_t S;
    static void init(S *s) { ascon_xofa_init(s); } static void init_fixed(S *s, size_t n) { ascon_xofa_init_fixed(s, n); }
    static void init_custom(S *s, const char *f, const unsigned char *c, size_t cl, size_t n) { ascon_xofa_init_custom(s, f, c, cl, n); }
    static void reinit(S *s) { ascon_xofa_reinit(s); } static void reinit_fixed(S *s, size_t n) { ascon_xofa_reinit_fixed(s, n); }
    static void absorb(S *s, const unsigned char *d, size_t n) { ascon_xofa_absorb(s, d, n); }
    static void squeeze(S *s, unsigned char *d, size_t n) { ascon_xofa_squeeze(s, d, n); }
    static void pad(S *s) { ascon_xofa_pad(s); } static void copy(S *d, const S *s) { ascon_xofa_copy(d, s); } static void free_(S *s) { ascon_xofa_free(s); }
};

// the const char* / std::string overloads: for xofa only where they compile
template <class T> struct StrAbsorb {
#if defined(ARDUINO)
    static bool cstr(T &o, const char *s) { if (s && ba_coin()) { String a(s); o.absorb(a); } else o.absorb(s); return true; }
    static bool str(T &o, const std::string &s) { String a(mk_string((const unsigned char *)s.data(), s.size())); o.absorb(a); return true; }
#elif !defined(ASCON_NO_STL)
    static bool cstr(T &o, const char *s) { o.absorb(s); return true; }
    static bool str(T &o, const std::string &s) { o.absorb(s); return true; }
#else
    static bool cstr(T &o, const char *s) { o.absorb(s); return true; }
    static bool str(T &, const std::string &) { return false; }        // no absorb(const std::string &) without the STL
#endif
};
#ifndef C17_XOFA_STRING_OK
template <size_t L> struct StrAbsorb<ascon::xofa_with_output_length<L> > {
    static bool cstr(ascon::xofa_with_output_length<L> &, const char *) { return false; }
    static bool str(ascon::xofa_with_output_length<L> &, const std::string &) { return false; }
};
#endif

// executes the C call list on a C state; returns the concatenated outputs
template <class A> static std::string c_side(const Toks &t, size_t from, size_t L, Bytes &outs) {
    typename A::S cur, alt; bool have = false, inas = false;
    for (size_t i = from; i < t.size(); ++i) {
        std::vector<std::string> f = split(t[i], ':');
        const std::string &c = f[0];
        typename A::S *s = inas ? &alt : &cur;
        if (c == "init") { A::init(s); have = true; }
        else if (c == "init_fixed") { A::init_fixed(s, (size_t)atol(f[1].c_str())); have = true; }
        else if (c == "init_custom") {
            Bytes name = unhex(f[1] == "NULL" ? "-" : f[1]); name.push_back(0); Buf nmb(name); Bytes cu = unhex(f[2]); Buf cb(cu, true);
            A::init_custom(s, f[1] == "NULL" ? 0 : (const char *)nmb.p, cb.p, cb.n, (size_t)atol(f[3].c_str())); have = true;
        }
        else if (!have) return "C-CALL-BEFORE-INIT";
        else if (c == "reinit") A::reinit(s);
        else if (c == "reinit_fixed") A::reinit_fixed(s, (size_t)atol(f[1].c_str()));
        else if (c == "absorb") { Bytes d = unhex(f[1]); Buf b(d, true); A::absorb(s, b.p, b.n); }
        else if (c == "squeeze") { size_t n = (size_t)atol(f[1].c_str()); Buf b(n); A::squeeze(s, b.p, n); outs.insert(outs.end(), b.p, b.p + n); }
        else if (c == "pad") A::pad(s);
        else if (c == "copyctor") { typename A::S s2; A::copy(&s2, &cur); A::free_(&cur); cur = s2; }     // T o2(o); continue with o2
        else if (c == "asbegin") { if (L == 0) A::init(&alt); else A::init_fixed(&alt, L); A::absorb(&alt, (const unsigned char *)"junk", 4); inas = true; }
        else if (c == "free") A::free_(s);
        else if (c == "copyfrom") A::copy(&alt, &cur);
        else if (c == "asend") { A::free_(&cur); cur = alt; inas = false; }
        else return "BAD-C-CALL " + c;
    }
    if (!have) return "NO-INIT";
    Buf b(24); A::squeeze(&cur, b.p, 24); outs.insert(outs.end(), b.p, b.p + 24); A::free_(&cur);
    return "";
}

template <class T, class A, size_t L> static std::string xof_run(const Toks &t) {
    size_t bar = 0; for (size_t i = 3; i < t.size(); ++i) if (t[i] == "|") { bar = i; break; }
    if (!bar) return "NO-C-CALLS";
    Bytes co, xo;
    std::string e = c_side<A>(t, bar + 1, L, co);
    if (!e.empty()) return e;
    T *o = 0; std::string skipped, nostl;
    ba_line(t);
    {   std::vector<std::string> f = split(t[3], ':');
        if (f[0] == "D") o = new T();
        else if (f[0] == "N") {       // named constructors: N:<name|NULL>:<custom>:<form>
            Bytes name = unhex(f[1] == "NULL" ? "-" : f[1]); name.push_back(0); Buf nmb(name); const char *nm = f[1] == "NULL" ? 0 : (const char *)nmb.p;
            Bytes cu = unhex(f[2]); Buf cb(cu, true);
            if (f[3] == "1") o = new T(nm);                     // (name): custom = 0, customlen = 0
            else if (f[3] == "3") o = new T(nm, cb.p, cb.n);
            else { ascon::byte_array b(mk_ba(cu)); o = new T(nm, b); }
        } else return "BADCTOR";
    }
    for (size_t i = 4; i < bar; ++i) {
        std::vector<std::string> f = split(t[i], ':');
        const std::string &c = f[0];
        if (c == "A") { Bytes d = unhex(f[1]); Buf b(d, true); o->absorb(b.p, b.n); }
        else if (c == "AB") { Bytes d = unhex(f[1]); ascon::byte_array b(mk_ba(d)); o->absorb(b); }
        else if (c == "AC") { if (f[1] == "NULL") { if (!StrAbsorb<T>::cstr(*o, 0)) skipped = " SKIPPED-NONCOMPILING"; }
                              else { Bytes d = unhex(f[1]); d.push_back(0); Buf db(d); if (!StrAbsorb<T>::cstr(*o, (const char *)db.p)) { skipped = " SKIPPED-NONCOMPILING";
                                     Buf d2(Bytes(d.begin(), d.begin() + strlen((const char *)d.data())), true); o->absorb(d2.p, d2.n); } } }
        else if (c == "AS") { Bytes d = unhex(f[1]); std::string s((const char *)d.data(), d.size()); if (!StrAbsorb<T>::str(*o, s)) {
#if defined(ASCON_NO_STL)
                                     nostl = " SKIPPED-NOSTL";
#else
                                     skipped = " SKIPPED-NONCOMPILING";
#endif
                                     Buf db(d, true); o->absorb(db.p, db.n); } }
        else if (c == "Q") { size_t n = (size_t)atol(f[1].c_str()); Buf b(n); o->squeeze(b.p, n); xo.insert(xo.end(), b.p, b.p + n); }
        else if (c == "QB") { size_t n = (size_t)atol(f[1].c_str()); ascon::byte_array b = o->squeeze(n); if (b.size() != n) return "SQUEEZE-SIZE"; xo.insert(xo.end(), b.begin(), b.end()); }
        else if (c == "P") o->pad();
        else if (c == "R") o->reset();
        else if (c == "CP") { T *o2 = new T(*o); delete o; o = o2; }
        else if (c == "ASG") { T *b = new T(); b->absorb((const unsigned char *)"junk", 4); *b = *o; delete o; o = b; }
        else if (c == "SELF") { T &r = *o; *o = r; }
        else if (c == "ST") { const T &cr = *o; if ((const void *)o->state() != (const void *)cr.state() || (void *)o->state() != (void *)o) return "STATE-PTR"; }
        else return "BADOP " + c;
    }
    { Buf b(24); o->squeeze(b.p, 24); xo.insert(xo.end(), b.p, b.p + 24); }
    delete o;
    return hex(xo) + (xo == co ? " C=ok" : " C=MISMATCH:" + hex(co)) + skipped + nostl;
}

template <class A, template <size_t> class TT> static std::string xof_dispatch(const Toks &t) {
    long L = atol(t[2].c_str());
    switch (L) {
    case 0: return xof_run<TT<0>, A, 0>(t);
    case 1: return xof_run<TT<1>, A, 1>(t);
    case 16: return xof_run<TT<16>, A, 16>(t);
    case 32: return xof_run<TT<32>, A, 32>(t);
    case 33: return xof_run<TT<33>, A, 33>(t);
    case 64: return xof_run<TT<64>, A, 64>(t);
    }
    return "UNSUPPORTED";
}
static std::string op_xofx(const Toks &t) {
    if (t[1] == "xof") return xof_dispatch<XofC, ascon::xof_with_output_length>(t);
    if (t[1] == "xofa") return xof_dispatch<XofaC, ascon::xofa_with_output_length>(t);
    return "UNSUPPORTED";
}
static Reg r_xofx("XOFX", op_xofx);

// ---- hash / hasha -------------------------------------------------------------
struct HashC { typedef ascon_hash_state_t S;
    static void init(S *s) { ascon_hash_init(s); } static void reinit(S *s) { ascon_hash_reinit(s); }
    static void update(S *s, const unsigned char *d, size_t n) { ascon_hash_update(s, d, n); }
    static void finalize(S *s, unsigned char *o) { ascon_hash_finalize(s, o); }
    static void copy(S *d, const S *s) { ascon_hash_copy(d, s); } static void free_(S *s) { ascon_hash_free(s); }
    static void oneshot(unsigned char *o, const unsigned char *d, size_t n) { ascon_hash(o, d, n); } };
struct HashaC { typedef ascon_hasha_state_t S;
    static void init(S *s) { ascon_hasha_init(s); } static void reinit(S *s) { ascon_hasha_reinit(s); }
    static void update(S *s, const unsigned char *d, size_t n) { ascon_hasha_update(s, d, n); }
    static void finalize(S *s, unsigned char *o) { ascon_hasha_finalize(s, o); }
    static void copy(S *d, const S *s) { ascon_hasha_copy(d, s); } static void free_(S *s) { ascon_hasha_free(s); }
    static void oneshot(unsigned char *o, const unsigned char *d, size_t n) { ascon_hasha(o, d, n); } };

// HSHX <hash|hasha> <member calls...> | <C calls...>
template <class T, class A> static std::string hash_run(const Toks &t) {
    size_t bar = 0; for (size_t i = 2; i < t.size(); ++i) if (t[i] == "|") { bar = i; break; }
    if (!bar) return "NO-C-CALLS";
    Bytes co, xo;
    {   typename A::S cur, alt; bool inas = false; A::init(&cur);
        for (size_t i = bar + 1; i < t.size(); ++i) {
            std::vector<std::string> f = split(t[i], ':'); const std::string &c = f[0];
            typename A::S *s = inas ? &alt : &cur;
            if (c == "reinit") A::reinit(s);
            else if (c == "update") { Bytes d = unhex(f[1]); Buf b(d, true); A::update(s, b.p, b.n); }
            else if (c == "finalize") { Buf b(32); A::finalize(s, b.p); co.insert(co.end(), b.p, b.p + 32); }
            else if (c == "oneshot") { Bytes d = unhex(f[1]); Buf b(d, true), r(32); A::oneshot(r.p, b.p, b.n); co.insert(co.end(), r.p, r.p + 32); }
            else if (c == "copyctor") { typename A::S s2; A::copy(&s2, &cur); A::free_(&cur); cur = s2; }
            else if (c == "asbegin") { A::init(&alt); A::update(&alt, (const unsigned char *)"junk", 4); inas = true; }
            else if (c == "free") A::free_(s);
            else if (c == "copyfrom") A::copy(&alt, &cur);
            else if (c == "asend") { A::free_(&cur); cur = alt; inas = false; }
            else return "BAD-C-CALL " + c;
        }
        Buf b(32); A::finalize(&cur, b.p); co.insert(co.end(), b.p, b.p + 32); A::free_(&cur);
    }
    T *o = new T(); std::string nostl;
    ba_line(t);
    for (size_t i = 2; i < bar; ++i) {
        std::vector<std::string> f = split(t[i], ':'); const std::string &c = f[0];
        if (c == "U") { Bytes d = unhex(f[1]); Buf b(d, true); o->update(b.p, b.n); }
        else if (c == "UB") { Bytes d = unhex(f[1]); ascon::byte_array b(mk_ba(d)); o->update(b); }
#if defined(ARDUINO)
        else if (c == "UC") { if (f[1] == "NULL") o->update((const char *)0); else { Bytes d = unhex(f[1]); d.push_back(0); Buf db(d);
                              if (ba_coin()) { String a((const char *)d.data()); o->update(a); } else o->update((const char *)db.p); } }
        else if (c == "US") { Bytes d = unhex(f[1]); String a(mk_string(d)); o->update(a); }
#else
        else if (c == "UC") { if (f[1] == "NULL") o->update((const char *)0); else { Bytes d = unhex(f[1]); d.push_back(0); Buf db(d); o->update((const char *)db.p); } }
#endif
#if defined(ARDUINO)
#elif !defined(ASCON_NO_STL)
        else if (c == "US") { Bytes d = unhex(f[1]); o->update(std::string((const char *)d.data(), d.size())); }
#else
        else if (c == "US") { Bytes d = unhex(f[1]); Buf db(d, true); o->update(db.p, db.n); nostl = " SKIPPED-NOSTL"; }     // no update(const std::string &)
#endif
        else if (c == "F") { Buf b(32); o->finalize(b.p); xo.insert(xo.end(), b.p, b.p + 32); }
        else if (c == "FB") { ascon::byte_array b = o->finalize(); if (b.size() != 32) return "FINALIZE-SIZE"; xo.insert(xo.end(), b.begin(), b.end()); }
        else if (c == "DG") { Bytes d = unhex(f[1]); Buf b(d, true), r(32); T::digest(r.p, b.p, b.n); xo.insert(xo.end(), r.p, r.p + 32); }
        else if (c == "R") o->reset();
        else if (c == "CP") { T *o2 = new T(*o); delete o; o = o2; }
        else if (c == "ASG") { T *b = new T(); b->update((const unsigned char *)"junk", 4); *b = *o; delete o; o = b; }
        else if (c == "SELF") { T &r = *o; *o = r; }
        else if (c == "ST") { const T &cr = *o; if ((const void *)o->state() != (const void *)cr.state() || (void *)o->state() != (void *)o) return "STATE-PTR"; }
        else return "BADOP " + c;
    }
    { Buf b(32); o->finalize(b.p); xo.insert(xo.end(), b.p, b.p + 32); }
    delete o;
    return hex(xo) + (xo == co ? " C=ok" : " C=MISMATCH:" + hex(co)) + nostl;
}
static std::string op_hshx(const Toks &t) {
    if (t[1] == "hash") return hash_run<ascon::hash, HashC>(t);
    if (t[1] == "hasha") return hash_run<ascon::hasha, HashaC>(t);
    return "UNSUPPORTED";
}
static Reg r_hshx("HSHX", op_hshx);

// ---- utility.h ----------------------------------------------------------------
// UTL TOHEX <bytes> <0|1> <P|B>      bytes_to_hex(ptr,len,upper) / bytes_to_hex(byte_array,upper)
// UTL TOHEXD <bytes> <P|B>           the default argument (lower case)
// UTL FROMDATA <bytes>               bytes_from_data
// UTL FROMHEX <chars as hex> <L|C|S> bytes_from_hex(str,len) / (const char*) / (std::string);  C with NULL
// Each prints the C++ result and C=ok when the C function gives the same.
static std::string op_utl(const Toks &t) {
    ba_line(t);
#if defined(ASCON_NO_STL) && !defined(ARDUINO)
    // bytes_to_hex (both forms) and bytes_from_hex(const std::string &) do not exist without the STL (utility.h:303)
    if (t[1] == "TOHEX" || t[1] == "TOHEXD" || (t[1] == "FROMHEX" && t[3] == "S")) return "SKIPPED-NOSTL";
#else
    if (t[1] == "TOHEX" || t[1] == "TOHEXD") {
        bool dflt = t[1] == "TOHEXD";
        Bytes d = unhex(t[2]); bool up = !dflt && t[3] == "1"; const std::string &form = t[dflt ? 3 : 4];
        std::string s;
#if defined(ARDUINO)
        // the ARDUINO forms return a String: its length() characters are the result
        String as;
        if (form == "P") { Buf b(d, true); as = dflt ? ascon::bytes_to_hex(b.p, b.n) : ascon::bytes_to_hex(b.p, b.n, up); }
        else { ascon::byte_array b(mk_ba(d)); as = dflt ? ascon::bytes_to_hex(b) : ascon::bytes_to_hex(b, up); }
        s = std::string(as.c_str(), as.length());
        if (strlen(as.c_str()) != as.length()) s += "<NUL-INSIDE>";
#else
        if (form == "P") { Buf b(d, true); s = dflt ? ascon::bytes_to_hex(b.p, b.n) : ascon::bytes_to_hex(b.p, b.n, up); }
        else { ascon::byte_array b(mk_ba(d)); s = dflt ? ascon::bytes_to_hex(b) : ascon::bytes_to_hex(b, up); }
#endif
        Buf o(d.size() * 2 + 1); Buf b(d, true);
        int r = ascon_bytes_to_hex((char *)o.p, o.n, b.p, b.n, up ? 1 : 0);
        bool ok = r == (int)(d.size() * 2) && s == std::string((const char *)o.p, (size_t)r);
        return "S=" + (s.empty() ? std::string("-") : s) + (ok ? " C=ok" : " C=MISMATCH:" + std::string((const char *)o.p, r > 0 ? (size_t)r : 0));
    }
#endif
    if (t[1] == "FROMDATA") {
        Bytes d = unhex(t[2]); Buf b(d);
        ascon::byte_array v = ascon::bytes_from_data(b.p, b.n);
        return "B=" + hex(v.data(), v.size()) + (Bytes(v.begin(), v.end()) == d ? " C=ok" : " C=MISMATCH");
    }
    if (t[1] == "FROMHEX") {
        ascon::byte_array v; Bytes chars; bool null = t[2] == "NULL";
        if (!null) chars = unhex(t[2]);
        const std::string &form = t[3];
        if (form == "L") { Buf b(chars, true); v = ascon::bytes_from_hex((const char *)b.p, b.n); }
#if defined(ARDUINO)
        else if (form == "C") { if (null) v = ascon::bytes_from_hex((const char *)0); else { Bytes z = chars; z.push_back(0); Buf zb(z);
                                if (ba_coin()) { String a((const char *)z.data()); v = ascon::bytes_from_hex(a); } else v = ascon::bytes_from_hex((const char *)zb.p);
                                chars.resize(strlen((const char *)z.data())); } }
        else { String a(mk_string(chars)); v = ascon::bytes_from_hex(a); }
#else
        else if (form == "C") { if (null) v = ascon::bytes_from_hex((const char *)0); else { Bytes z = chars; z.push_back(0); Buf zb(z); v = ascon::bytes_from_hex((const char *)zb.p); chars.resize(strlen((const char *)z.data())); } }
#endif
#if defined(ARDUINO)
#elif !defined(ASCON_NO_STL)
        else { v = ascon::bytes_from_hex(std::string((const char *)chars.data(), chars.size())); }
#endif
        Buf o(chars.size() / 2), cb(chars, true);
        int r = ascon_bytes_from_hex(o.p, o.n, (const char *)cb.p, cb.n);
        bool ok = r < 0 ? v.empty() : (v.size() >= (size_t)r && same(v.data(), o.p, (size_t)r));
        // the helper returns the whole len/2 vector: equal to the C result exactly when the C function filled it
        std::string sz = r < 0 ? "" : (v.size() == (size_t)r ? "" : " SIZE=" + std::to_string(v.size()) + "/C=" + std::to_string(r));
        return "B=" + hex(v.data(), v.size()) + (ok ? " C=ok" : " C=MISMATCH:" + (r < 0 ? std::string("-1") : hex(o.p, (size_t)r))) + sz;
    }
    return "UNSUPPORTED";
}
static Reg r_utl("UTL", op_utl);
