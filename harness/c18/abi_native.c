/* C18 native cross-check of the x86-64 lowering table and of the ABI facts (see tools/native_x86.py).
 * Reads one case per line on stdin:
 *   C <id> <fn> <E|S> <nreg> { <size> <w|r> <hex|-|U> }*nreg  <a0> .. <a5>  <nrand> { <hex u64> }*nrand  <15 hex u64: register file>
 * argument tokens: P<region>:<offset> (pointer into a region) | I<decimal> (integer) | N (take the value from the register file)
 * Regions live alone in a page between two inaccessible pages, flush against the upper (E) or lower (S)
 * guard page; `r` regions are made read-only for the call; U = filled with 0xA5 ("uninitialised").
 * Prints: R <id> ok  cs=<0|1> rsp=<0|1> canary=<0|1> page=<0|1> trng=<0|1> callrsp=<hex digit per call: rsp mod 16> | <region hex>...
 * or (from the signal handler) X <id> signal <n>. */
#define _GNU_SOURCE
#include <stdio.h>
#include <stdlib.h>
#include <string.h>
#include <stdint.h>
#include <signal.h>
#include <unistd.h>
#include <sys/mman.h>

struct ctx { void *fn; uint64_t in[15]; uint64_t out[15]; uint64_t rsp0, rsp1; uint64_t canary[16]; };
extern void c18_call(struct ctx *);
uint64_t c18_rand_n, c18_rand_rsp[16], c18_rand_arg[16], c18_rand_vals[16];

#define X(n) extern void n(void);
#include "fns.inc"
#undef X
static const struct { const char *name; void (*fn)(void); } fns[] = {
#define X(n) { #n, n },
#include "fns.inc"
#undef X
    { 0, 0 }
};

#define PG 4096
#define MAXREG 6
static unsigned char *base[MAXREG];
static char cur_id[64] = "?";

static void on_signal(int sig)
{
    char buf[128];
    int n = snprintf(buf, sizeof buf, "X %s signal %d\n", cur_id, sig);
    if (write(1, buf, n) < 0) {}
    _exit(3);
}

static int hexval(int c) { return c <= '9' ? c - '0' : (c | 32) - 'a' + 10; }

int main(void)
{
    static char line[1 << 16];
    int i;
    for (i = 0; i < MAXREG; i++) {
        base[i] = mmap(0, 3 * PG, PROT_READ | PROT_WRITE, MAP_PRIVATE | MAP_ANONYMOUS, -1, 0);
        if (base[i] == MAP_FAILED) { perror("mmap"); return 2; }
        mprotect(base[i], PG, PROT_NONE);
        mprotect(base[i] + 2 * PG, PG, PROT_NONE);
    }
    signal(SIGSEGV, on_signal); signal(SIGBUS, on_signal); signal(SIGILL, on_signal);
    setvbuf(stdout, 0, _IOLBF, 0);
    while (fgets(line, sizeof line, stdin)) {
        char *tok[600]; int nt = 0; char *p = strtok(line, " \n");
        while (p && nt < 600) { tok[nt++] = p; p = strtok(0, " \n"); }
        if (nt < 5 || strcmp(tok[0], "C")) continue;
        int t = 1;
        snprintf(cur_id, sizeof cur_id, "%s", tok[t++]);
        const char *fname = tok[t++];
        int endp = tok[t++][0] == 'E';
        int nreg = atoi(tok[t++]);
        unsigned char *ptr[MAXREG]; int size[MAXREG], ro[MAXREG];
        void (*fn)(void) = 0;
        for (i = 0; fns[i].name; i++) if (!strcmp(fns[i].name, fname)) fn = fns[i].fn;
        if (!fn || nreg > MAXREG) { printf("E %s unknown function or too many regions\n", cur_id); continue; }
        for (i = 0; i < nreg; i++) {
            size[i] = atoi(tok[t++]); ro[i] = tok[t++][0] == 'r';
            const char *h = tok[t++];
            mprotect(base[i] + PG, PG, PROT_READ | PROT_WRITE);
            memset(base[i] + PG, 0x5A, PG);
            ptr[i] = endp ? base[i] + 2 * PG - size[i] : base[i] + PG;
            if (h[0] == 'U') memset(ptr[i], 0xA5, size[i]);
            else if (h[0] != '-') { int k; for (k = 0; k < size[i]; k++) ptr[i][k] = (unsigned char)(hexval(h[2 * k]) * 16 + hexval(h[2 * k + 1])); }
        }
        struct ctx c; memset(&c, 0, sizeof c);
        c.fn = (void *)fn;
        const char *argt[6];
        for (i = 0; i < 6; i++) argt[i] = tok[t++];
        int nrand = atoi(tok[t++]);
        for (i = 0; i < 16; i++) { c18_rand_vals[i] = 0; c18_rand_rsp[i] = 0; c18_rand_arg[i] = 0; }
        for (i = 0; i < nrand; i++) c18_rand_vals[i & 15] = strtoull(tok[t++], 0, 16);
        c18_rand_n = 0;
        for (i = 0; i < 15; i++) c.in[i] = strtoull(tok[t++], 0, 16);
        static const int argreg[6] = { 5, 4, 3, 2, 7, 8 };      /* rdi rsi rdx rcx r8 r9 in the register file order */
        uint64_t trng_ptr = 0; int have_trng = 0;
        for (i = 0; i < 6; i++) {
            if (argt[i][0] == 'P') { int r = atoi(argt[i] + 1); int off = atoi(strchr(argt[i], ':') + 1); c.in[argreg[i]] = (uint64_t)(uintptr_t)(ptr[r] + off);
                                     if (size[r] == 0) { trng_ptr = c.in[argreg[i]]; have_trng = 1; } }
            else if (argt[i][0] == 'I') c.in[argreg[i]] = strtoull(argt[i] + 1, 0, 10);
        }
        for (i = 0; i < nreg; i++) if (ro[i]) mprotect(base[i] + PG, PG, PROT_READ);
        c18_call(&c);
        for (i = 0; i < nreg; i++) if (ro[i]) mprotect(base[i] + PG, PG, PROT_READ | PROT_WRITE);
        int cs = c.out[1] == c.in[1] && c.out[6] == c.in[6] && c.out[11] == c.in[11] && c.out[12] == c.in[12] && c.out[13] == c.in[13] && c.out[14] == c.in[14];
        int rsp = c.rsp0 == c.rsp1;
        int can = 1; for (i = 0; i < 16; i++) if (c.canary[i] != 0xC0DEC0DE5AFE5AFEULL) can = 0;
        int page = 1;
        for (i = 0; i < nreg; i++) { unsigned char *q; for (q = base[i] + PG; q < base[i] + 2 * PG; q++) if ((q < ptr[i] || q >= ptr[i] + size[i]) && *q != 0x5A) page = 0; }
        int trng = 1;
        for (i = 0; i < (int)c18_rand_n && i < 16; i++) if (have_trng && c18_rand_arg[i] != trng_ptr) trng = 0;
        if ((int)c18_rand_n != nrand) trng = 0;
        printf("R %s ok cs=%d rsp=%d canary=%d page=%d trng=%d callrsp=", cur_id, cs, rsp, can, page, trng);
        for (i = 0; i < (int)c18_rand_n && i < 16; i++) printf("%x", (unsigned)(c18_rand_rsp[i] & 15));
        if (!c18_rand_n) printf("-");
        printf(" regs=");
        { static const int csr[6] = { 1, 6, 11, 12, 13, 14 }; for (i = 0; i < 6; i++) printf("%s%016llx", i ? "," : "", (unsigned long long)c.out[csr[i]]); }
        printf(" |");
        for (i = 0; i < nreg; i++) { int k; printf(" "); if (!size[i]) printf("-"); for (k = 0; k < size[i]; k++) printf("%02x", ptr[i][k]); }
        printf("\n");
    }
    return 0;
}
