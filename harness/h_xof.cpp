// Hash / XOF family through the C API: slot machine "X", one-shot "XO".
#include "hx.h"
#include <ascon/xof.h>
#include <ascon/hash.h>
#include <ascon/prf.h>
#include <ascon/permutation.h>

struct XObj { int kind; /* 0 xof 1 xofa 2 hash 3 hasha 4 prf */ ascon_prf_state_t p; ascon_xof_state_t x; ascon_xofa_state_t a; ascon_hash_state_t h; ascon_hasha_state_t ha; };
static std::map<int, XObj *> xs;
static int kind_of(const std::string &v) { return v == "xof" ? 0 : v == "xofa" ? 1 : v == "hash" ? 2 : v == "hasha" ? 3 : v == "prf" ? 4 : -1; }

static std::string op_xo(const Toks &t) {
    Buf in(unhex(t[2]), true), out(32);
    int k = kind_of(t[1]);
    if (k == 0) ascon_xof(out.p, in.p, in.n); else if (k == 1) ascon_xofa(out.p, in.p, in.n);
    else if (k == 2) ascon_hash(out.p, in.p, in.n); else if (k == 3) ascon_hasha(out.p, in.p, in.n);
    else return "UNSUPPORTED";
    return out.hx();
}
static Reg r_xo("XO", op_xo);

static ascon_xof_state_t *xofp(XObj *o) { return o->kind == 0 ? &o->x : o->kind == 2 ? &o->h.xof : 0; }
static ascon_xofa_state_t *xofap(XObj *o) { return o->kind == 1 ? &o->a : o->kind == 3 ? &o->ha.xof : 0; }

static std::string op_x(const Toks &t) {
    int slot = atoi(t[1].c_str());
    if (t.size() >= 4 && (t[3] == "INIT" || t[3] == "INITF" || t[3] == "INITC" || t[3] == "REINIT" || t[3] == "REINITF" || t[3] == "REINITC" || t[3] == "INITK" || t[3] == "REINITK")) {
        bool re = t[3][0] == 'R';
        int k = kind_of(t[2]);
        XObj *o;
        if (re) { if (!xs.count(slot)) return "NOSLOT"; o = xs[slot]; if (o->kind != k) return "ERR kind"; }
        else { o = new XObj; memset(o, 0xCD, sizeof(*o)); o->kind = k; if (xs.count(slot)) delete xs[slot]; xs[slot] = o; }
        const std::string op = re ? t[3].substr(2) : t[3];
        if (op == "INITK") {
            if (k != 4) return "UNSUPPORTED";
            Buf key(unhex(t[4]));
            size_t L = (size_t)strtoull(t[5].c_str(), 0, 10);
            if (L == 0 && t.size() > 6) (re ? ascon_prf_reinit : ascon_prf_init)(&o->p, key.p);
            else (re ? ascon_prf_fixed_reinit : ascon_prf_fixed_init)(&o->p, key.p, L);
        } else if (op == "INIT") {
            if (k == 4) return "UNSUPPORTED";
            if (k == 0) (re ? ascon_xof_reinit : ascon_xof_init)(&o->x);
            else if (k == 1) (re ? ascon_xofa_reinit : ascon_xofa_init)(&o->a);
            else if (k == 2) (re ? ascon_hash_reinit : ascon_hash_init)(&o->h);
            else (re ? ascon_hasha_reinit : ascon_hasha_init)(&o->ha);
        } else if (op == "INITF") {
            size_t L = (size_t)strtoull(t[4].c_str(), 0, 10);
            if (k == 0) (re ? ascon_xof_reinit_fixed : ascon_xof_init_fixed)(&o->x, L);
            else if (k == 1) (re ? ascon_xofa_reinit_fixed : ascon_xofa_init_fixed)(&o->a, L);
            else return "UNSUPPORTED";
        } else {
            std::string name; const char *np = 0;
            if (t[4] != "NULL") { std::vector<unsigned char> nv = unhex(t[4]); name.assign(nv.begin(), nv.end()); np = name.c_str(); }
            Buf custom(unhex(t[5]), true);
            size_t L = (size_t)strtoull(t[6].c_str(), 0, 10);
            if (k == 0) (re ? ascon_xof_reinit_custom : ascon_xof_init_custom)(&o->x, np, custom.p, custom.n, L);
            else if (k == 1) (re ? ascon_xofa_reinit_custom : ascon_xofa_init_custom)(&o->a, np, custom.p, custom.n, L);
            else return "UNSUPPORTED";
        }
        return "OK";
    }
    if (!xs.count(slot)) return "NOSLOT";
    XObj *o = xs[slot];
    const std::string &op = t[2];
    if (op == "ABS") {
        Buf in(unhex(t[3]), true);
        if (o->kind == 4) ascon_prf_absorb(&o->p, in.p, in.n); else
        if (o->kind == 0) ascon_xof_absorb(&o->x, in.p, in.n); else if (o->kind == 1) ascon_xofa_absorb(&o->a, in.p, in.n);
        else if (o->kind == 2) ascon_hash_update(&o->h, in.p, in.n); else ascon_hasha_update(&o->ha, in.p, in.n);
        return "OK";
    }
    if (op == "SQZ") {
        size_t n = (size_t)atoi(t[3].c_str());
        Buf out(n);
        if (o->kind == 4) ascon_prf_squeeze(&o->p, out.p, n); else
        if (o->kind == 0) ascon_xof_squeeze(&o->x, out.p, n); else if (o->kind == 1) ascon_xofa_squeeze(&o->a, out.p, n);
        else if (n == 32 && o->kind == 2) ascon_hash_finalize(&o->h, out.p);
        else if (n == 32 && o->kind == 3) ascon_hasha_finalize(&o->ha, out.p);
        else if (o->kind == 2) ascon_xof_squeeze(&o->h.xof, out.p, n); else ascon_xofa_squeeze(&o->ha.xof, out.p, n);
        return out.hx();
    }
    if (op == "PAD" && o->kind == 4) return "UNSUPPORTED";
    if (op == "COPY" && o->kind == 4) return "UNSUPPORTED";
    if (op == "PAD") {
        if (xofp(o)) ascon_xof_pad(xofp(o)); else ascon_xofa_pad(xofap(o));
        return "OK";
    }
    if (op == "COPY") {
        int d = atoi(t[3].c_str());
        XObj *n = new XObj; memset(n, 0xCD, sizeof(*n)); n->kind = o->kind;
        if (o->kind == 0) ascon_xof_copy(&n->x, &o->x); else if (o->kind == 1) ascon_xofa_copy(&n->a, &o->a);
        else if (o->kind == 2) ascon_hash_copy(&n->h, &o->h); else ascon_hasha_copy(&n->ha, &o->ha);
        if (xs.count(d)) delete xs[d];
        xs[d] = n;
        return "OK";
    }
    if (op == "FREE") {
        if (o->kind == 4) ascon_prf_free(&o->p); else
        if (o->kind == 0) ascon_xof_free(&o->x); else if (o->kind == 1) ascon_xofa_free(&o->a);
        else if (o->kind == 2) ascon_hash_free(&o->h); else ascon_hasha_free(&o->ha);
        delete o; xs.erase(slot);
        return "OK";
    }
    if (op == "DUMP") {
        unsigned char b[40]; unsigned count, mode;
        if (o->kind == 4) { ascon_prf_state_t *x = &o->p; ascon_acquire(&x->state); ascon_extract_bytes(&x->state, b, 0, 40); ascon_release(&x->state); count = x->count; mode = x->mode; }
        else if (xofp(o)) { ascon_xof_state_t *x = xofp(o); ascon_acquire(&x->state); ascon_extract_bytes(&x->state, b, 0, 40); ascon_release(&x->state); count = x->count; mode = x->mode; }
        else { ascon_xofa_state_t *x = xofap(o); ascon_acquire(&x->state); ascon_extract_bytes(&x->state, b, 0, 40); ascon_release(&x->state); count = x->count; mode = x->mode; }
        return std::to_string(count) + " " + std::to_string(mode) + " " + hex(b, 40);
    }
    return "UNSUPPORTED";
}
static Reg r_x("X", op_x);
