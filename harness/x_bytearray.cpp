// C20 - standalone correspondence program for the ASCON_NO_STL byte_array.
//
// Built by lib/p_c20.py (never linked into the main harness, which uses the
// STL configuration of the headers):
//   g++ -std=c++11 -DASCON_NO_STL -I$REPO/src harness/x_bytearray.cpp \
//       $REPO/src/cplusplus/ascon-byte-array.cpp $REPO/src/core/ascon-hex.c(as C)
// Reads the `BA ...` operation lines of the correspondence protocol on stdin
// and prints one result line per operation:
//   <result> | H=<live private blocks> 0=<slot> 1=<slot> ...
// VERIF_BA_MODE=impl (default): the operations are executed on
// ascon::byte_array objects; slots are D (no object), N (p == 0) or
// P<c>/<ref>/<size>/<capacity>/<bytes> with c the lowest variable sharing the
// same private block.  VERIF_BA_MODE=vec: the same operations on
// std::vector<unsigned char>; slots are D or V/<size>/<bytes>.
// After fixes/C20-bytearray-unshare-leaked.patch a private block has the
// member `leaked`; a leaked block prints as P<c>/<ref>/<size>/<capacity>/<bytes>/L.
//
// Held references (SET2, SWAP, GETHELD, GETHELDC, HELDPOP, DATAHELDCOPY,
// DATAHELDASSIGN, CDATAHELD): an element reference or data()/begin() pointer
// is obtained, other members of the same object are called, then the
// reference is used.  While such an operation runs, storage released through
// operator delete is kept aside (not returned to the allocator, so no address
// is reused); before a held reference is used the program tests whether it
// points into released storage.  If so the result is UAF and the access is
// NOT performed (the state stays defined and the run deterministic in every
// build).  With VERIF_BA_RAW=1 nothing is kept aside or tested: the access is
// performed as the C++ source says, for AddressSanitizer to report.
#include <string>
#include <vector>
#include <map>
#include <iostream>
#include <sstream>
#include <cstdio>
#include <cstdlib>
#include <cstring>
#include <new>
#include <utility>
#include <malloc.h>

// ---- allocation tracking (only while an operation on the class runs) ------
static bool g_track = false;
static long g_live = 0;
void *operator new(size_t n) { void *p = malloc(n ? n : 1); if (!p) abort(); if (g_track) ++g_live; return p; }
void *operator new[](size_t n) { void *p = malloc(n ? n : 1); if (!p) abort(); if (g_track) ++g_live; return p; }
// storage released while a held-reference operation runs
static bool g_raw = false, g_defer = false;
static struct { char *p; size_t n; } g_def[64];
static int g_ndef = 0;
static void release(void *p) {
    if (!p) return;
    if (g_track) --g_live;
    if (g_defer && g_ndef < 64) { g_def[g_ndef].p = (char *)p; g_def[g_ndef].n = malloc_usable_size(p); ++g_ndef; }
    else free(p);
}
void operator delete(void *p) noexcept { release(p); }
void operator delete[](void *p) noexcept { release(p); }
void operator delete(void *p, size_t) noexcept { release(p); }
void operator delete[](void *p, size_t) noexcept { release(p); }
struct Track { Track() { g_track = true; } ~Track() { g_track = false; } };
struct Hold {
    Hold() { g_defer = !g_raw; }
    ~Hold() { g_defer = false; for (int i = 0; i < g_ndef; ++i) free(g_def[i].p); g_ndef = 0; }
};
// does q point into storage that has been released since the Hold began?
static bool dangling(const void *q) {
    if (!q) return true;
    for (int i = 0; i < g_ndef; ++i) if ((const char *)q >= g_def[i].p && (const char *)q < g_def[i].p + (g_def[i].n ? g_def[i].n : 1)) return true;
    return false;
}

// the private members are read for the state dump only
#define private public
#include <ascon/utility.h>
#undef private

#if !defined(ASCON_NO_STL)
#error "x_bytearray.cpp must be compiled with -DASCON_NO_STL"
#endif

typedef std::vector<std::string> Toks;
static const int MAXV = 16;

static std::string hex(const unsigned char *p, size_t n) {
    if (n == 0) return "-";
    static const char *d = "0123456789abcdef";
    std::string s;
    for (size_t i = 0; i < n; ++i) { s += d[p[i] >> 4]; s += d[p[i] & 15]; }
    return s;
}
static int hexval(char c) {
    if (c >= '0' && c <= '9') return c - '0';
    if (c >= 'a' && c <= 'f') return c - 'a' + 10;
    return c - 'A' + 10;
}
static std::string unhexs(const std::string &s) {
    std::string v;
    if (s == "-") return v;
    for (size_t i = 0; i + 1 < s.size(); i += 2) v.push_back((char)(hexval(s[i]) * 16 + hexval(s[i + 1])));
    return v;
}

// reference decoder for the vector side of FROMHEX: hex digits and the six
// white-space characters, an even number of digits, anything else: empty
static std::vector<unsigned char> ref_decode(const std::string &s) {
    std::vector<unsigned char> out; int have = 0, hi = 0;
    for (size_t i = 0; i < s.size(); ++i) {
        unsigned char c = (unsigned char)s[i]; int d;
        if (c >= '0' && c <= '9') d = c - '0';
        else if (c >= 'a' && c <= 'f') d = c - 'a' + 10;
        else if (c >= 'A' && c <= 'F') d = c - 'A' + 10;
        else if (c == ' ' || c == '\t' || c == '\n' || c == '\v' || c == '\f' || c == '\r') continue;
        else return std::vector<unsigned char>();
        if (have) { out.push_back((unsigned char)(hi * 16 + d)); have = 0; } else { hi = d; have = 1; }
    }
    if (have) return std::vector<unsigned char>();
    return out;
}

// `leaked` exists only after fixes/C20-bytearray-unshare-leaked.patch
template <class P> static auto is_leaked(const P *p, int) -> decltype((bool)p->leaked) { return p->leaked; }
template <class P> static bool is_leaked(const P *, long) { return false; }

template <class A> struct Traits;
template <> struct Traits<ascon::byte_array> {
    typedef ascon::byte_array A;
    static std::string slot(A *const *vars, int n, int v) {
        const A *a = vars[v];
        if (!a) return "D";
        if (!a->p) return "N";
        int c = v;
        for (int i = 0; i < n; ++i) if (vars[i] && vars[i]->p == a->p) { c = i; break; }
        std::ostringstream os;
        os << "P" << c << "/" << a->p->ref << "/" << a->p->size << "/" << a->p->capacity << "/" << hex(a->p->data, a->p->size);
        if (is_leaked(a->p, 0)) os << "/L";
        return os.str();
    }
    static bool has_capacity() { return true; }
    static void from_hex(void *where, const std::string &s, bool z, bool null) {
        if (null) new (where) A(ascon::bytes_from_hex((const char *)0));
        else if (z) new (where) A(ascon::bytes_from_hex(s.c_str()));
        else new (where) A(ascon::bytes_from_hex(s.data(), s.size()));
    }
    static bool full() { return true; }
};
template <> struct Traits<std::vector<unsigned char> > {
    typedef std::vector<unsigned char> A;
    static std::string slot(A *const *vars, int n, int v) {
        const A *a = vars[v];
        if (!a) return "D";
        return "V/" + std::to_string(a->size()) + "/" + hex(a->data(), a->size());
    }
    static bool has_capacity() { return false; }
    static void from_hex(void *where, const std::string &s, bool z, bool null) {
        if (null) new (where) A();
        else if (z) new (where) A(ref_decode(std::string(s.c_str())));
        else new (where) A(ref_decode(s));
    }
    static bool full() { return false; }
};

template <class A> struct Machine {
    A *vars[MAXV];
    alignas(16) unsigned char store[MAXV][sizeof(A) < 16 ? 16 : sizeof(A)];
    int n;
    Machine() : n(0) { for (int i = 0; i < MAXV; ++i) vars[i] = 0; }
    void reset(int nv) {
        { Track t; for (int i = 0; i < MAXV; ++i) if (vars[i]) { vars[i]->~A(); vars[i] = 0; } }
        n = nv;
    }
    std::string dump() {
        std::string s;
        if (Traits<A>::full()) s = "H=" + std::to_string(g_live / 2) + (g_live % 2 ? "+odd" : "");
        for (int i = 0; i < n; ++i) s += (s.empty() ? "" : " ") + std::to_string(i) + "=" + Traits<A>::slot(vars, n, i);
        return s;
    }
    std::string op(const Toks &t) {
        const std::string &o = t[1];
        if (o == "RESET") { reset(atoi(t[2].c_str())); return "-"; }
        int v = atoi(t[2].c_str());
        if (v < 0 || v >= n) return "PRE";
        // ---- constructors
        if (o == "CTOR" || o == "COPY" || o == "CSIZE" || o == "CSIZE1" || o == "FROMHEX" || o == "FROMHEXZ") {
            if (vars[v]) return "PRE";
            void *where = store[v];
            if (o == "CTOR") { Track k; vars[v] = new (where) A(); }
            else if (o == "COPY") {
                int w = atoi(t[3].c_str());
                if (w < 0 || w >= n || !vars[w]) return "PRE";
                Track k; vars[v] = new (where) A(*vars[w]);
            }
            else if (o == "CSIZE") { size_t sz = strtoul(t[3].c_str(), 0, 10); unsigned char val = (unsigned char)atoi(t[4].c_str()); Track k; vars[v] = new (where) A(sz, val); }
            else if (o == "CSIZE1") { size_t sz = strtoul(t[3].c_str(), 0, 10); Track k; vars[v] = new (where) A(sz); }
            else {
                bool null = t[3] == "NULL";
                std::string s = null ? std::string() : unhexs(t[3]);
                Track k; Traits<A>::from_hex(where, s, o == "FROMHEXZ", null); vars[v] = (A *)where;
            }
            return "-";
        }
        if (!vars[v]) return "PRE";
        A &a = *vars[v];
        const A &ca = a;
        if (o == "DTOR") { Track k; a.~A(); vars[v] = 0; return "-"; }
        if (o == "ASSIGN" || o == "EQ" || o == "NE" || o == "LT" || o == "LE" || o == "GT" || o == "GE") {
            int w = atoi(t[3].c_str());
            if (w < 0 || w >= n || !vars[w]) return "PRE";
            const A &b = *vars[w];
            bool r;
            { Track k;
              if (o == "ASSIGN") { a = b; return "-"; }
              else if (o == "EQ") r = ca == b; else if (o == "NE") r = ca != b; else if (o == "LT") r = ca < b;
              else if (o == "LE") r = ca <= b; else if (o == "GT") r = ca > b; else r = ca >= b; }
            return r ? "T" : "F";
        }
        if (o == "SET") { size_t pos = strtoul(t[3].c_str(), 0, 10); unsigned char val = (unsigned char)atoi(t[4].c_str()); if (pos >= ca.size()) return "PRE"; Track k; a[pos] = val; return "-"; }
        if (o == "GET") { size_t pos = strtoul(t[3].c_str(), 0, 10); if (pos >= ca.size()) return "PRE"; unsigned char x; { Track k; x = a[pos]; } return hex(&x, 1); }
        if (o == "GETC") { size_t pos = strtoul(t[3].c_str(), 0, 10); if (pos >= ca.size()) return "PRE"; unsigned char x; { Track k; x = ca[pos]; } return hex(&x, 1); }
        if (o == "SIZE") { size_t r; { Track k; r = ca.size(); } return std::to_string(r); }
        if (o == "CAP") { size_t r; { Track k; r = ca.capacity(); } return Traits<A>::has_capacity() ? std::to_string(r) : std::string("*"); }
        if (o == "EMPTY") { bool r; { Track k; r = ca.empty(); } return r ? "T" : "F"; }
        if (o == "DATA") {
            // non-const data() or begin()/end(), then read the whole range
            unsigned char buf[4096]; size_t len = 0;
            { Track k;
              if (t.size() > 3 && t[3] == "I") { for (typename A::iterator it = a.begin(); it != a.end() && len < sizeof(buf); ++it) buf[len++] = *it; }
              else { unsigned char *d = a.data(); len = a.size(); if (len > sizeof(buf)) len = sizeof(buf); if (len) memcpy(buf, d, len); } }
            return "B:" + hex(buf, len);
        }
        if (o == "DATASET") { size_t pos = strtoul(t[3].c_str(), 0, 10); unsigned char val = (unsigned char)atoi(t[4].c_str()); if (pos >= ca.size()) return "PRE"; Track k; a.data()[pos] = val; return "-"; }
        if (o == "DATAC") {
            unsigned char buf[4096]; size_t len = 0;
            { Track k;
              if (t.size() > 3 && t[3] == "I") { for (typename A::const_iterator it = ca.cbegin(); it != ca.cend() && len < sizeof(buf); ++it) buf[len++] = *it; }
              else if (t.size() > 3 && t[3] == "J") { for (typename A::const_iterator it = ca.begin(); it != ca.end() && len < sizeof(buf); ++it) buf[len++] = *it; }
              else { const unsigned char *d = ca.data(); len = ca.size(); if (len > sizeof(buf)) len = sizeof(buf); if (len) memcpy(buf, d, len); } }
            return "B:" + hex(buf, len);
        }
        // ---- references and pointers held across other operations on the same object
        if (o == "SET2" || o == "SWAP" || o == "GETHELD" || o == "GETHELDC" || o == "HELDPOP" || o == "CDATAHELD") {
            size_t i = strtoul(t[3].c_str(), 0, 10);
            if (i >= ca.size()) return "PRE";
            Hold hold; Track k;
            if (o == "SET2") {
                unsigned char x = (unsigned char)atoi(t[4].c_str()); size_t j = strtoul(t[5].c_str(), 0, 10); unsigned char y = (unsigned char)atoi(t[6].c_str());
                if (j >= ca.size()) return "PRE";
                unsigned char &r = a[i]; unsigned char &s = a[j];
                if (!g_raw && (dangling(&r) || dangling(&s))) return "UAF";
                r = x; s = y; return "-";
            }
            if (o == "SWAP") {
                size_t j = strtoul(t[4].c_str(), 0, 10);
                if (j >= ca.size()) return "PRE";
                if (g_raw) { std::swap(a[i], a[j]); return "-"; }
                unsigned char &r = a[i]; unsigned char &s = a[j];
                if (dangling(&r) || dangling(&s)) return "UAF";
                std::swap(r, s); return "-";
            }
            if (o == "GETHELD" || o == "GETHELDC") {
                size_t j = strtoul(t[4].c_str(), 0, 10);
                if (j >= ca.size()) return "PRE";
                const unsigned char *r;
                if (o == "GETHELD") { unsigned char &rr = a[i]; (void)a[j]; r = &rr; }
                else { const unsigned char &rr = ca[i]; (void)ca[j]; r = &rr; }
                if (!g_raw && dangling(r)) return "UAF";
                unsigned char x = *r; return hex(&x, 1);
            }
            if (o == "HELDPOP") {
                if (i + 1 >= ca.size()) return "PRE";
                unsigned char &r = a[i]; a.pop_back();
                if (!g_raw && dangling(&r)) return "UAF";
                unsigned char x = r; return hex(&x, 1);
            }
            // CDATAHELD v i j value [I|J]: const pointer from data() / cbegin() / begin() const, then a write through operator[]
            size_t j = strtoul(t[4].c_str(), 0, 10); unsigned char val = (unsigned char)atoi(t[5].c_str());
            if (j >= ca.size()) return "PRE";
            const unsigned char *q = (t.size() > 6 && t[6] == "I") ? &*ca.cbegin() : (t.size() > 6 && t[6] == "J") ? &*ca.begin() : ca.data();
            a[j] = val;
            if (!g_raw && dangling(q + i)) return "UAF";
            unsigned char x = q[i]; return hex(&x, 1);
        }
        if (o == "DATAHELDCOPY" || o == "DATAHELDASSIGN") {
            // DATAHELDCOPY v w pos value [I]: pointer from data() / begin(), then w is copy-constructed from / assigned v, then a write through the pointer
            int w = atoi(t[3].c_str()); size_t pos = strtoul(t[4].c_str(), 0, 10); unsigned char val = (unsigned char)atoi(t[5].c_str());
            if (w < 0 || w >= n || pos >= ca.size()) return "PRE";
            if (o == "DATAHELDCOPY" ? vars[w] != 0 : vars[w] == 0) return "PRE";
            Hold hold; Track k;
            unsigned char *q = (t.size() > 6 && t[6] == "I") ? &*a.begin() : a.data();
            if (o == "DATAHELDCOPY") vars[w] = new ((void *)store[w]) A(a); else *vars[w] = a;
            if (!g_raw && dangling(q + pos)) return "UAF";
            q[pos] = val; return "-";
        }
        if (o == "RESERVE") { size_t sz = strtoul(t[3].c_str(), 0, 10); Track k; a.reserve(sz); return "-"; }
        if (o == "RESIZE") { size_t sz = strtoul(t[3].c_str(), 0, 10); Track k; a.resize(sz); return "-"; }
        if (o == "CLEAR") { Track k; a.clear(); return "-"; }
        if (o == "PUSH") { unsigned char val = (unsigned char)atoi(t[3].c_str()); Track k; a.push_back(val); return "-"; }
        if (o == "POP") { Track k; if (Traits<A>::full() || !ca.empty()) a.pop_back(); return "-"; }   // std::vector: undefined when empty
        return "UNSUPPORTED";
    }
};

template <class A> static int mainloop() {
    static Machine<A> m;
    std::string line;
    while (std::getline(std::cin, line)) {
        if (line.empty() || line[0] == '#') continue;
        std::istringstream is(line);
        Toks t; std::string w;
        while (is >> w) t.push_back(w);
        if (t.size() < 3 || t[0] != "BA") { std::cout << "UNSUPPORTED\n" << std::flush; continue; }
        std::string r = m.op(t);
        std::cout << r << " | " << m.dump() << "\n" << std::flush;
    }
    m.reset(0);
    if (g_live != 0) { std::cout << "LEAK " << g_live << "\n"; return 3; }
    return 0;
}

int main() {
    const char *raw = getenv("VERIF_BA_RAW");
    g_raw = raw && raw[0] == '1';
    const char *e = getenv("VERIF_BA_MODE");
    if (e && std::string(e) == "vec") return mainloop<std::vector<unsigned char> >();
    return mainloop<ascon::byte_array>();
}
