// Masked keys (MK) and the masked-word toolkit (MW) under a scripted random tape (C10).
#include "hx.h"
#include <ascon/masking.h>
extern "C" {
#include "masking/ascon-masked-config.h"
#include "masking/ascon-masked-word.h"
#include "masking/ascon-masked-backend.h"
}
#if defined(ASCON_MASKED_WORD_BACKEND_C32)
#define HX_WORDKIND "w32"
#else
#define HX_WORDKIND "w64"
#endif
void hx_trng_script(const std::vector<uint64_t> &words);    // h_trng.cpp: these words, then zeros

static std::vector<uint64_t> tape_of(const std::string &s) {
    std::vector<uint64_t> v;
    if (s == "-") return v;
    size_t i = 0;
    while (i < s.size()) { size_t j = s.find(',', i); if (j == std::string::npos) j = s.size();
        v.push_back(strtoull(s.substr(i, j - i).c_str(), 0, 16)); i = j + 1; }
    return v;
}

// MK <bits> <key shares> <w64|w32: how the backend draws random words> <key> <rounds> <tape>: mask, extract, then <rounds> x (randomize, extract, which shares changed)
template <class K, int NW>
static std::string mk_run(const Toks &t, void (*init)(K *, const unsigned char *), void (*rnd)(K *),
                          void (*ext)(const K *, unsigned char *), void (*fre)(K *), size_t klen) {
    if (atoi(t[2].c_str()) != ASCON_MASKED_KEY_SHARES || t[3] != HX_WORDKIND)
        return "CONFIG-MISMATCH " + std::to_string(ASCON_MASKED_KEY_SHARES) + " " HX_WORDKIND;
    Buf key(unhex(t[4]));
    int rounds = atoi(t[5].c_str());
    hx_trng_script(tape_of(t[6]));
    K mk;
    init(&mk, key.p);
    Buf out(klen);
    ext(&mk, out.p);
    std::string res = out.hx();
    for (int r = 0; r < rounds; ++r) {
        K before = mk;
        rnd(&mk);
        Buf o2(klen);
        ext(&mk, o2.p);
        res += " " + o2.hx() + ":";
        for (int w = 0; w < NW; ++w) {
            if (w) res += ",";
            for (int j = 0; j < ASCON_MASKED_KEY_SHARES; ++j)
                res += (before.k[w].S[j] != mk.k[w].S[j]) ? "1" : "0";
        }
    }
    fre(&mk);
    return res;
}
static std::string op_mk(const Toks &t) {
    if (t[1] == "128")
        return mk_run<ascon_masked_key_128_t, 2>(t, ascon_masked_key_128_init, ascon_masked_key_128_randomize,
                                                 ascon_masked_key_128_extract, ascon_masked_key_128_free, 16);
    if (t[1] == "160")
        return mk_run<ascon_masked_key_160_t, 6>(t, ascon_masked_key_160_init, ascon_masked_key_160_randomize,
                                                 ascon_masked_key_160_extract, ascon_masked_key_160_free, 20);
    return "UNSUPPORTED";
}
static Reg r_mk("MK", op_mk);

// MP <state40> <prog> <tape>: the state goes through masked forms; prog is a comma list of
//   2|3|4 (convert to that many shares), r (randomize), p<k> (permute from round k); the result is unmasked again.
extern "C" {
#include "masking/ascon-masked-state.h"
}
#include <ascon/permutation.h>
static std::string op_mp(const Toks &t) {
    std::vector<unsigned char> in = unhex(t[1]);
    hx_trng_script(tape_of(t[3]));
    ascon_trng_state_t trng; ascon_trng_init(&trng);
    ascon_state_t x1;
    ascon_init(&x1);
    ascon_overwrite_bytes(&x1, in.data(), 0, 40);
    ascon_masked_state_t ms, tmp;
    memset(&ms, 0xA5, sizeof(ms)); memset(&tmp, 0x5A, sizeof(tmp));
    int cur = 1;
    std::string prog = t[2];
    size_t i = 0;
    while (i < prog.size()) {
        size_t j = prog.find(',', i); if (j == std::string::npos) j = prog.size();
        std::string c = prog.substr(i, j - i); i = j + 1;
        if (c == "2" || c == "3" || c == "4") {
            int n = c[0] - '0';
            if (n > ASCON_MASKED_MAX_SHARES) { ascon_free(&x1); return "NOSHARES"; }
            if (cur == 1) {
                if (n == 2) ascon_x2_copy_from_x1(&ms, &x1, &trng);
#if ASCON_MASKED_MAX_SHARES >= 3
                else if (n == 3) ascon_x3_copy_from_x1(&ms, &x1, &trng);
#endif
#if ASCON_MASKED_MAX_SHARES >= 4
                else if (n == 4) ascon_x4_copy_from_x1(&ms, &x1, &trng);
#endif
            } else {
                tmp = ms;
                memset(&ms, 0xA5, sizeof(ms));
                if (n == 2 && cur == 2) ascon_x2_copy_from_x2(&ms, &tmp, &trng);
#if ASCON_MASKED_MAX_SHARES >= 3
                else if (n == 2 && cur == 3) ascon_x2_copy_from_x3(&ms, &tmp, &trng);
                else if (n == 3 && cur == 2) ascon_x3_copy_from_x2(&ms, &tmp, &trng);
                else if (n == 3 && cur == 3) ascon_x3_copy_from_x3(&ms, &tmp, &trng);
#endif
#if ASCON_MASKED_MAX_SHARES >= 4
                else if (n == 2 && cur == 4) ascon_x2_copy_from_x4(&ms, &tmp, &trng);
                else if (n == 3 && cur == 4) ascon_x3_copy_from_x4(&ms, &tmp, &trng);
                else if (n == 4 && cur == 2) ascon_x4_copy_from_x2(&ms, &tmp, &trng);
                else if (n == 4 && cur == 3) ascon_x4_copy_from_x3(&ms, &tmp, &trng);
                else if (n == 4 && cur == 4) ascon_x4_copy_from_x4(&ms, &tmp, &trng);
#endif
            }
            cur = n;
        } else if (c == "r") {
            if (cur == 2) ascon_x2_randomize(&ms, &trng);
#if ASCON_MASKED_MAX_SHARES >= 3
            else if (cur == 3) ascon_x3_randomize(&ms, &trng);
#endif
#if ASCON_MASKED_MAX_SHARES >= 4
            else if (cur == 4) ascon_x4_randomize(&ms, &trng);
#endif
        } else if (c[0] == 'p') {
            uint8_t k = (uint8_t)atoi(c.c_str() + 1);
            uint64_t preserve[3];
            for (int q = 0; q < cur - 1; ++q) preserve[q] = ascon_trng_generate_64(&trng);
            if (cur == 1) ascon_permute(&x1, k);
            else if (cur == 2) ascon_x2_permute(&ms, k, preserve);
#if ASCON_MASKED_MAX_SHARES >= 3
            else if (cur == 3) ascon_x3_permute(&ms, k, preserve);
#endif
#if ASCON_MASKED_MAX_SHARES >= 4
            else if (cur == 4) ascon_x4_permute(&ms, k, preserve);
#endif
        }
    }
    unsigned char out[40];
    if (cur == 1) { ascon_extract_bytes(&x1, out, 0, 40); ascon_free(&x1); return hex(out, 40); }
    ascon_free(&x1);
    ascon_state_t y;
    if (cur == 2) ascon_x2_copy_to_x1(&y, &ms);
#if ASCON_MASKED_MAX_SHARES >= 3
    else if (cur == 3) ascon_x3_copy_to_x1(&y, &ms);
#endif
#if ASCON_MASKED_MAX_SHARES >= 4
    else if (cur == 4) ascon_x4_copy_to_x1(&y, &ms);
#endif
    ascon_extract_bytes(&y, out, 0, 40);
    ascon_free(&y);
    return hex(out, 40);
}
static Reg r_mp("MP", op_mp);

// MR <shares> <w64|w32> <state40> <rounds> <tape>: mask a state with <shares> shares, then <rounds> x
// (randomize, unmask, which shares of which word changed)
static std::string op_mr(const Toks &t) {
    int n = atoi(t[1].c_str());
    if (t[2] != HX_WORDKIND) return std::string("CONFIG-MISMATCH ") + HX_WORDKIND;
    if (n > ASCON_MASKED_MAX_SHARES || n < 2) return "NOSHARES";
    std::vector<unsigned char> in = unhex(t[3]);
    int rounds = atoi(t[4].c_str());
    hx_trng_script(tape_of(t[5]));
    ascon_trng_state_t trng; ascon_trng_init(&trng);
    ascon_state_t x1;
    ascon_init(&x1);
    ascon_overwrite_bytes(&x1, in.data(), 0, 40);
    ascon_masked_state_t ms;
    memset(&ms, 0, sizeof(ms));
    if (n == 2) ascon_x2_copy_from_x1(&ms, &x1, &trng);
#if ASCON_MASKED_MAX_SHARES >= 3
    else if (n == 3) ascon_x3_copy_from_x1(&ms, &x1, &trng);
#endif
#if ASCON_MASKED_MAX_SHARES >= 4
    else if (n == 4) ascon_x4_copy_from_x1(&ms, &x1, &trng);
#endif
    ascon_free(&x1);
    std::string res;
    for (int r = 0; r <= rounds; ++r) {
        ascon_masked_state_t before = ms;
        if (r) {
            if (n == 2) ascon_x2_randomize(&ms, &trng);
#if ASCON_MASKED_MAX_SHARES >= 3
            else if (n == 3) ascon_x3_randomize(&ms, &trng);
#endif
#if ASCON_MASKED_MAX_SHARES >= 4
            else if (n == 4) ascon_x4_randomize(&ms, &trng);
#endif
        }
        ascon_state_t y; unsigned char out[40];
        if (n == 2) ascon_x2_copy_to_x1(&y, &ms);
#if ASCON_MASKED_MAX_SHARES >= 3
        else if (n == 3) ascon_x3_copy_to_x1(&y, &ms);
#endif
#if ASCON_MASKED_MAX_SHARES >= 4
        else if (n == 4) ascon_x4_copy_to_x1(&y, &ms);
#endif
        ascon_extract_bytes(&y, out, 0, 40);
        ascon_free(&y);
        if (r) res += " ";
        res += hex(out, 40);
        if (r) {
            res += ":";
            for (int w = 0; w < 5; ++w) {
                if (w) res += ",";
                for (int j = 0; j < n; ++j) res += (before.M[w].S[j] != ms.M[w].S[j]) ? "1" : "0";
            }
        }
    }
    return res;
}
static Reg r_mr("MR", op_mr);

// MSI: ascon_masked_state_init gives the all-zero value with no randomness; ascon_masked_state_free wipes every byte
static std::string op_msi(const Toks &t) {
    (void)t;
    ascon_masked_state_t ms;
    memset(&ms, 0xA5, sizeof(ms));
    ascon_masked_state_init(&ms);
    ascon_state_t y; unsigned char out[40];
    ascon_x2_copy_to_x1(&y, &ms);
    ascon_extract_bytes(&y, out, 0, 40);
    ascon_free(&y);
    memset(&ms, 0x5A, sizeof(ms));
    ascon_masked_state_free(&ms);
    const unsigned char *b = (const unsigned char *)&ms;
    bool wiped = true;
    for (size_t i = 0; i < sizeof(ms); ++i) if (b[i]) wiped = false;
    return hex(out, 40) + (wiped ? " wiped" : " NOT-WIPED");
}
static Reg r_msi("MSI", op_msi);
