/* C12 - standalone observation program (not part of the line-protocol harness).
 *
 *   x_c12 guard|exact [groups]
 *
 * Calls the public state primitives, the INTERNAL masked-word / masked-state /
 * masked-key toolkit, the masked permutations, a few one-shot modes and the
 * incremental AEAD functions (init / reinit / start / encrypt_block /
 * decrypt_block / finalize / free, group "inc-modes") with every buffer
 * allocated at exactly its documented size:
 *
 *   guard   each object lies between two PROT_NONE pages; every call is made
 *           twice, once with the object's END against the upper guard page
 *           (overruns fault; byte buffers are then unaligned) and once with its
 *           START against the lower guard page (underruns fault).  This is
 *           what makes the x86-64 ASSEMBLY of the default build observable -
 *           ASan does not instrument .S files.
 *   exact   plain malloc(size): for ASan+UBSan builds (redzones on both sides).
 *
 * A fault prints `FAULT <group> <function> <arguments>` (the replay) and exits 3;
 * otherwise one `OK <group> <calls>` line per group and exit 0.
 * The random source is substituted at link time (deterministic xorshift).
 */
#define _GNU_SOURCE
#include <stdio.h>
#include <stdlib.h>
#include <string.h>
#include <stdint.h>
#include <stddef.h>
#include <signal.h>
#include <unistd.h>
#include <sys/mman.h>
#include <ascon/permutation.h>
#include <ascon/aead.h>
#include <ascon/aead-masked.h>
#include <ascon/hash.h>
#include <ascon/xof.h>
#include <ascon/masking.h>
#include "random/ascon-trng.h"
#include "masking/ascon-masked-config.h"
#include "masking/ascon-masked-word.h"
#include "masking/ascon-masked-state.h"

/* ---- link-time random source */
static uint64_t g_x = 0x9E3779B97F4A7C15ULL;
static uint64_t next_word(void) { g_x ^= g_x << 13; g_x ^= g_x >> 7; g_x ^= g_x << 17; return g_x; }
int ascon_trng_generate(unsigned char *out, size_t outlen) { size_t i; for (i = 0; i < outlen; ++i) out[i] = (unsigned char)(next_word() >> 11); return 1; }
int ascon_trng_init(ascon_trng_state_t *state) { memset(state, 0, sizeof(*state)); return 1; }
void ascon_trng_free(ascon_trng_state_t *state) { (void)state; }
uint32_t ascon_trng_generate_32(ascon_trng_state_t *state) { (void)state; return (uint32_t)next_word(); }
uint64_t ascon_trng_generate_64(ascon_trng_state_t *state) { (void)state; return next_word(); }
int ascon_trng_reseed(ascon_trng_state_t *state) { (void)state; return 1; }

/* ---- allocation */
static int g_guard = 1;
static int g_at_end = 1;
static long g_page;
static char g_what[256] = "start";
static const char *g_group = "-";

struct blk { void *map; size_t maplen; void *p; };
#define MAXBLK 16
static struct blk g_blk[MAXBLK];
static int g_nblk = 0;

static void *galloc(size_t size, unsigned char fill)
{
    struct blk *b = &g_blk[g_nblk++];
    if (g_nblk > MAXBLK) { fprintf(stderr, "too many blocks\n"); exit(2); }
    if (!g_guard) {
        b->map = malloc(size ? size : 1);
        b->maplen = 0;
        b->p = b->map;
        if (size) memset(b->p, fill, size);
        return b->p;
    } else {
        size_t body = (size + g_page - 1) / g_page * g_page;
        if (body == 0) body = g_page;
        b->maplen = body + 2 * g_page;
        b->map = mmap(0, b->maplen, PROT_READ | PROT_WRITE, MAP_PRIVATE | MAP_ANONYMOUS, -1, 0);
        if (b->map == MAP_FAILED) { perror("mmap"); exit(2); }
        mprotect(b->map, g_page, PROT_NONE);
        mprotect((char *)b->map + g_page + body, g_page, PROT_NONE);
        b->p = g_at_end ? (char *)b->map + g_page + body - size : (char *)b->map + g_page;
        if (size) memset(b->p, fill, size);
        return b->p;
    }
}
/* objects that the C code accesses with aligned 64-bit loads keep their natural alignment */
static void *galloc_aligned(size_t size, unsigned char fill)
{
    if (g_guard && g_at_end && (size & 7)) { fprintf(stderr, "aligned object size %zu\n", size); exit(2); }
    return galloc(size, fill);
}
static void gfree_all(void)
{
    while (g_nblk > 0) {
        struct blk *b = &g_blk[--g_nblk];
        if (b->maplen) munmap(b->map, b->maplen); else free(b->map);
    }
}

static void on_fault(int sig)
{
    char buf[400];
    int n = snprintf(buf, sizeof(buf), "FAULT %s %s placement=%s signal=%d\n", g_group, g_what, g_at_end ? "end" : "start", sig);
    if (n > 0) { ssize_t r = write(1, buf, (size_t)n); (void)r; }
    _exit(3);
}
#define WHAT(...) snprintf(g_what, sizeof(g_what), __VA_ARGS__)

static unsigned long g_calls;

/* ---- A. public state primitives */
static void group_state(void)
{
    unsigned r, off, size;
    g_group = "state";
    for (r = 0; r <= 12; ++r) {
        ascon_state_t *st = galloc_aligned(sizeof(ascon_state_t), 0x11);
        WHAT("ascon_permute first_round=%u", r);
        ascon_init(st); ascon_permute(st, (uint8_t)r); ascon_free(st); ++g_calls;
        gfree_all();
    }
    for (off = 0; off <= 40; ++off) {
        for (size = 0; off + size <= 40; ++size) {
            ascon_state_t *st = galloc_aligned(sizeof(ascon_state_t), 0x22);
            unsigned char *in = galloc(size, 0x33), *out = galloc(size, 0x44);
            ascon_init(st);
            WHAT("ascon_add_bytes offset=%u size=%u", off, size); ascon_add_bytes(st, in, off, size);
            WHAT("ascon_overwrite_bytes offset=%u size=%u", off, size); ascon_overwrite_bytes(st, in, off, size);
            WHAT("ascon_overwrite_with_zeroes offset=%u size=%u", off, size); ascon_overwrite_with_zeroes(st, off, size);
            WHAT("ascon_extract_bytes offset=%u size=%u", off, size); ascon_extract_bytes(st, out, off, size);
            WHAT("ascon_extract_and_add_bytes offset=%u size=%u", off, size); ascon_extract_and_add_bytes(st, in, out, off, size);
            WHAT("ascon_extract_and_overwrite_bytes offset=%u size=%u", off, size); ascon_extract_and_overwrite_bytes(st, in, out, off, size);
            WHAT("ascon_extract_and_overwrite_bytes(in place) offset=%u size=%u", off, size); ascon_extract_and_overwrite_bytes(st, out, out, off, size);
            ascon_free(st); g_calls += 7;
            gfree_all();
        }
    }
}

/* ---- B. internal masked toolkit */
typedef void (*f_wt)(ascon_masked_word_t *, ascon_trng_state_t *);
typedef void (*f_wdt)(ascon_masked_word_t *, const uint8_t *, ascon_trng_state_t *);
typedef void (*f_wdst)(ascon_masked_word_t *, const uint8_t *, unsigned, ascon_trng_state_t *);
typedef void (*f_wddt)(ascon_masked_word_t *, const uint8_t *, const uint8_t *, ascon_trng_state_t *);
typedef void (*f_dw)(uint8_t *, const ascon_masked_word_t *);
typedef void (*f_dsw)(uint8_t *, unsigned, const ascon_masked_word_t *);
typedef void (*f_wwt)(ascon_masked_word_t *, const ascon_masked_word_t *, ascon_trng_state_t *);
typedef void (*f_ww)(ascon_masked_word_t *, const ascon_masked_word_t *);
typedef void (*f_wws)(ascon_masked_word_t *, const ascon_masked_word_t *, unsigned);

struct wordfns { int n; f_wt zero; f_wdt load; f_wdst load_partial; f_wddt load_32; f_dw store; f_dsw store_partial;
                 f_wwt randomize; f_ww xor_; f_wws replace; f_wwt from[3]; const char *fromname[3]; };

static void word_family(const struct wordfns *F, ascon_trng_state_t *trng)
{
    unsigned size; int k;
    ascon_masked_word_t *w, *s; uint8_t *d, *d2;
#define NEWW(var, fill) var = galloc_aligned(sizeof(ascon_masked_word_t), fill)
    NEWW(w, 0x55); WHAT("ascon_masked_word_x%d_zero", F->n); F->zero(w, trng); ++g_calls; gfree_all();
    NEWW(w, 0x55); d = galloc(8, 0x66); WHAT("ascon_masked_word_x%d_load", F->n); F->load(w, d, trng); ++g_calls; gfree_all();
    for (size = 1; size <= 7; ++size) {
        NEWW(w, 0x55); d = galloc(size, 0x66); WHAT("ascon_masked_word_x%d_load_partial size=%u", F->n, size);
        F->load_partial(w, d, size, trng); ++g_calls; gfree_all();
    }
    NEWW(w, 0x55); d = galloc(4, 0x66); d2 = galloc(4, 0x67); WHAT("ascon_masked_word_x%d_load_32", F->n); F->load_32(w, d, d2, trng); ++g_calls; gfree_all();
    NEWW(w, 0x55); d = galloc(8, 0x66); WHAT("ascon_masked_word_x%d_store", F->n); F->store(d, w); ++g_calls; gfree_all();
    for (size = 0; size <= 7; ++size) {
        NEWW(w, 0x55); d = galloc(size, 0x66); WHAT("ascon_masked_word_x%d_store_partial size=%u", F->n, size);
        F->store_partial(d, size, w); ++g_calls; gfree_all();
    }
    NEWW(w, 0x55); NEWW(s, 0x56); WHAT("ascon_masked_word_x%d_randomize", F->n); F->randomize(w, s, trng); F->randomize(w, w, trng); g_calls += 2; gfree_all();
    NEWW(w, 0x55); NEWW(s, 0x56); WHAT("ascon_masked_word_x%d_xor", F->n); F->xor_(w, s); ++g_calls; gfree_all();
    for (size = 0; size <= 7; ++size) {
        NEWW(w, 0x55); NEWW(s, 0x56); WHAT("ascon_masked_word_x%d_replace size=%u", F->n, size); F->replace(w, s, size); ++g_calls; gfree_all();
    }
    for (k = 0; k < 3; ++k) {
        if (!F->from[k]) continue;
        NEWW(w, 0x55); NEWW(s, 0x56); WHAT("ascon_masked_word_x%d_%s", F->n, F->fromname[k]); F->from[k](w, s, trng); F->from[k](w, w, trng); g_calls += 2; gfree_all();
    }
}

static void group_masked_word(void)
{
    ascon_trng_state_t trng;
    unsigned off;
    struct wordfns F2 = { 2, ascon_masked_word_x2_zero, ascon_masked_word_x2_load, ascon_masked_word_x2_load_partial, ascon_masked_word_x2_load_32,
                          ascon_masked_word_x2_store, ascon_masked_word_x2_store_partial, ascon_masked_word_x2_randomize, ascon_masked_word_x2_xor,
                          ascon_masked_word_x2_replace, {0, 0, 0}, {"from_x3", "from_x4", ""} };
    g_group = "masked-word";
    ascon_trng_init(&trng);
#if ASCON_MASKED_MAX_SHARES >= 3
    F2.from[0] = ascon_masked_word_x2_from_x3;
#endif
#if ASCON_MASKED_MAX_SHARES >= 4
    F2.from[1] = ascon_masked_word_x2_from_x4;
#endif
    word_family(&F2, &trng);
#if ASCON_MASKED_MAX_SHARES >= 3
    {
        struct wordfns F3 = { 3, ascon_masked_word_x3_zero, ascon_masked_word_x3_load, ascon_masked_word_x3_load_partial, ascon_masked_word_x3_load_32,
                              ascon_masked_word_x3_store, ascon_masked_word_x3_store_partial, ascon_masked_word_x3_randomize, ascon_masked_word_x3_xor,
                              ascon_masked_word_x3_replace, {ascon_masked_word_x3_from_x2, 0, 0}, {"from_x2", "from_x4", ""} };
#if ASCON_MASKED_MAX_SHARES >= 4
        F3.from[1] = ascon_masked_word_x3_from_x4;
#endif
        word_family(&F3, &trng);
    }
#endif
#if ASCON_MASKED_MAX_SHARES >= 4
    {
        struct wordfns F4 = { 4, ascon_masked_word_x4_zero, ascon_masked_word_x4_load, ascon_masked_word_x4_load_partial, ascon_masked_word_x4_load_32,
                              ascon_masked_word_x4_store, ascon_masked_word_x4_store_partial, ascon_masked_word_x4_randomize, ascon_masked_word_x4_xor,
                              ascon_masked_word_x4_replace, {ascon_masked_word_x4_from_x2, ascon_masked_word_x4_from_x3, 0}, {"from_x2", "from_x3", ""} };
        word_family(&F4, &trng);
    }
#endif
    for (off = 0; off <= 7; ++off) {
        ascon_masked_word_t *w = galloc_aligned(sizeof(ascon_masked_word_t), 0x55);
        WHAT("ascon_masked_word_pad offset=%u", off); ascon_masked_word_pad(w, off); ++g_calls; gfree_all();
    }
    { ascon_masked_word_t *w = galloc_aligned(sizeof(ascon_masked_word_t), 0x55); WHAT("ascon_masked_word_separator"); ascon_masked_word_separator(w); ++g_calls; gfree_all(); }
    ascon_trng_free(&trng);
}

typedef void (*f_perm)(ascon_masked_state_t *, uint8_t, uint64_t *);
typedef void (*f_st)(ascon_masked_state_t *, ascon_trng_state_t *);
typedef void (*f_from1)(ascon_masked_state_t *, const ascon_state_t *, ascon_trng_state_t *);
typedef void (*f_to1)(ascon_state_t *, const ascon_masked_state_t *);
typedef void (*f_fromx)(ascon_masked_state_t *, const ascon_masked_state_t *, ascon_trng_state_t *);

static void state_family(int n, f_perm perm, f_st rnd, f_from1 from1, f_to1 to1, f_fromx fx[3], ascon_trng_state_t *trng)
{
    unsigned r; int k;
    for (r = 0; r <= 12; ++r) {
        ascon_masked_state_t *ms = galloc_aligned(sizeof(ascon_masked_state_t), 0x71);
        uint64_t *pre = galloc_aligned(8 * (size_t)(n - 1), 0x72);
        WHAT("ascon_x%d_permute first_round=%u", n, r); perm(ms, (uint8_t)r, pre); ++g_calls; gfree_all();
    }
    { ascon_masked_state_t *ms = galloc_aligned(sizeof(ascon_masked_state_t), 0x71); WHAT("ascon_x%d_randomize", n); rnd(ms, trng); ++g_calls; gfree_all(); }
    { ascon_masked_state_t *ms = galloc_aligned(sizeof(ascon_masked_state_t), 0x71); ascon_state_t *st = galloc_aligned(sizeof(ascon_state_t), 0x73);
      ascon_init(st); WHAT("ascon_x%d_copy_from_x1", n); from1(ms, st, trng); WHAT("ascon_x%d_copy_to_x1", n); to1(st, ms); ascon_free(st); g_calls += 2; gfree_all(); }
    for (k = 0; k < 3; ++k) {
        if (!fx[k]) continue;
        ascon_masked_state_t *ms = galloc_aligned(sizeof(ascon_masked_state_t), 0x71), *src = galloc_aligned(sizeof(ascon_masked_state_t), 0x74);
        WHAT("ascon_x%d_copy_from_x%d", n, k + 2); fx[k](ms, src, trng); fx[k](ms, ms, trng); g_calls += 2; gfree_all();
    }
}

static void group_masked_state(void)
{
    ascon_trng_state_t trng;
    f_fromx fx2[3] = { ascon_x2_copy_from_x2, 0, 0 };
    g_group = "masked-state";
    ascon_trng_init(&trng);
    { ascon_masked_state_t *ms = galloc_aligned(sizeof(ascon_masked_state_t), 0x71); WHAT("ascon_masked_state_init/free"); ascon_masked_state_init(ms); ascon_masked_state_free(ms); g_calls += 2; gfree_all(); }
#if ASCON_MASKED_MAX_SHARES >= 3
    fx2[1] = ascon_x2_copy_from_x3;
#endif
#if ASCON_MASKED_MAX_SHARES >= 4
    fx2[2] = ascon_x2_copy_from_x4;
#endif
    state_family(2, ascon_x2_permute, ascon_x2_randomize, ascon_x2_copy_from_x1, ascon_x2_copy_to_x1, fx2, &trng);
#if ASCON_MASKED_MAX_SHARES >= 3
    {
        f_fromx fx3[3] = { ascon_x3_copy_from_x2, ascon_x3_copy_from_x3, 0 };
#if ASCON_MASKED_MAX_SHARES >= 4
        fx3[2] = ascon_x3_copy_from_x4;
#endif
        state_family(3, ascon_x3_permute, ascon_x3_randomize, ascon_x3_copy_from_x1, ascon_x3_copy_to_x1, fx3, &trng);
    }
#endif
#if ASCON_MASKED_MAX_SHARES >= 4
    {
        f_fromx fx4[3] = { ascon_x4_copy_from_x2, ascon_x4_copy_from_x3, ascon_x4_copy_from_x4 };
        state_family(4, ascon_x4_permute, ascon_x4_randomize, ascon_x4_copy_from_x1, ascon_x4_copy_to_x1, fx4, &trng);
    }
#endif
    /* masked keys */
    {
        ascon_masked_key_128_t *k = galloc_aligned(sizeof(ascon_masked_key_128_t), 0x81);
        unsigned char *key = galloc(16, 0x82), *out = galloc(16, 0x83);
        WHAT("ascon_masked_key_128_init"); ascon_masked_key_128_init(k, key);
        WHAT("ascon_masked_key_128_randomize"); ascon_masked_key_128_randomize(k);
        WHAT("ascon_masked_key_128_randomize_with_trng"); ascon_masked_key_128_randomize_with_trng(k, &trng);
        WHAT("ascon_masked_key_128_extract"); ascon_masked_key_128_extract(k, out);
        WHAT("ascon_masked_key_128_free"); ascon_masked_key_128_free(k); g_calls += 5; gfree_all();
    }
    {
        ascon_masked_key_160_t *k = galloc_aligned(sizeof(ascon_masked_key_160_t), 0x81);
        unsigned char *key = galloc(20, 0x82), *out = galloc(20, 0x83);
        WHAT("ascon_masked_key_160_init"); ascon_masked_key_160_init(k, key);
        WHAT("ascon_masked_key_160_randomize"); ascon_masked_key_160_randomize(k);
        WHAT("ascon_masked_key_160_randomize_with_trng"); ascon_masked_key_160_randomize_with_trng(k, &trng);
        WHAT("ascon_masked_key_160_extract"); ascon_masked_key_160_extract(k, out);
        WHAT("ascon_masked_key_160_free"); ascon_masked_key_160_free(k); g_calls += 5; gfree_all();
    }
    ascon_trng_free(&trng);
}

/* ---- C. one-shot modes with exact buffers */
static const unsigned g_lens[] = { 0, 1, 2, 3, 4, 5, 6, 7, 8, 9, 10, 11, 12, 13, 14, 15, 16, 17, 18, 19, 20, 23, 24, 25, 31, 32, 33, 39, 40, 41,
                                   47, 48, 49, 63, 64, 65, 127, 128, 129, 255, 256, 257, 1000 };
#define NLENS (sizeof(g_lens) / sizeof(g_lens[0]))

typedef int (*f_enc)(unsigned char *, size_t *, const unsigned char *, size_t, const unsigned char *, size_t, const unsigned char *, const unsigned char *);

static void aead_one(const char *name, f_enc enc, f_enc dec, unsigned keylen, unsigned mlen, unsigned adlen)
{
    unsigned char *key = galloc(keylen, 0x91), *npub = galloc(16, 0x92), *m = galloc(mlen, 0x93), *ad = galloc(adlen, 0x94);
    unsigned char *c = galloc(mlen + 16, 0x95), *m2 = galloc(mlen, 0x96);
    size_t clen = 0, mlen2 = 0;
    WHAT("%s_aead_encrypt mlen=%u adlen=%u", name, mlen, adlen); enc(c, &clen, m, mlen, ad, adlen, npub, key);
    WHAT("%s_aead_decrypt clen=%u adlen=%u", name, mlen + 16, adlen); dec(m2, &mlen2, c, clen, ad, adlen, npub, key);
    WHAT("%s_aead_decrypt (tampered) clen=%u adlen=%u", name, mlen + 16, adlen); c[clen - 1] ^= 1; dec(m2, &mlen2, c, clen, ad, adlen, npub, key);
    g_calls += 3; gfree_all();
}

static void group_modes(void)
{
    size_t i, j;
    g_group = "modes";
    for (i = 0; i < NLENS; ++i) {
        for (j = 0; j < NLENS; j += 3) {
            aead_one("ascon128", (f_enc)ascon128_aead_encrypt, (f_enc)ascon128_aead_decrypt, 16, g_lens[i], g_lens[j]);
            aead_one("ascon128a", (f_enc)ascon128a_aead_encrypt, (f_enc)ascon128a_aead_decrypt, 16, g_lens[i], g_lens[(j + 1) % NLENS]);
            aead_one("ascon80pq", (f_enc)ascon80pq_aead_encrypt, (f_enc)ascon80pq_aead_decrypt, 20, g_lens[i], g_lens[(j + 2) % NLENS]);
        }
    }
    for (i = 0; i < NLENS; ++i) {
        unsigned char *in = galloc(g_lens[i], 0xa1), *out = galloc(32, 0xa2);
        WHAT("ascon_hash inlen=%u", g_lens[i]); ascon_hash(out, in, g_lens[i]);
        WHAT("ascon_hasha inlen=%u", g_lens[i]); ascon_hasha(out, in, g_lens[i]);
        WHAT("ascon_xof inlen=%u", g_lens[i]); ascon_xof(out, in, g_lens[i]);
        WHAT("ascon_xofa inlen=%u", g_lens[i]); ascon_xofa(out, in, g_lens[i]);
        g_calls += 4; gfree_all();
        {
            ascon_xof_state_t *x = galloc_aligned((sizeof(ascon_xof_state_t) + 7) & ~(size_t)7, 0xa3);
            unsigned char *in2 = galloc(g_lens[i], 0xa1), *o2 = galloc(g_lens[NLENS - 1 - i], 0xa2);
            WHAT("ascon_xof_init/absorb/squeeze inlen=%u outlen=%u", g_lens[i], g_lens[NLENS - 1 - i]);
            ascon_xof_init(x); ascon_xof_absorb(x, in2, g_lens[i] / 2); ascon_xof_absorb(x, in2 + g_lens[i] / 2, g_lens[i] - g_lens[i] / 2);
            ascon_xof_squeeze(x, o2, g_lens[NLENS - 1 - i] / 3); ascon_xof_squeeze(x, o2 + g_lens[NLENS - 1 - i] / 3, g_lens[NLENS - 1 - i] - g_lens[NLENS - 1 - i] / 3);
            ascon_xof_free(x); g_calls += 6; gfree_all();
        }
    }
}

static void group_masked_modes(void)
{
    size_t i, j;
    g_group = "masked-modes";
    for (i = 0; i < NLENS; ++i) {
        for (j = i % 4; j < NLENS; j += 4) {
            unsigned mlen = g_lens[i], adlen = g_lens[j];
            size_t clen = 0, mlen2 = 0;
            {
                ascon_masked_key_128_t *k = galloc_aligned(sizeof(ascon_masked_key_128_t), 0xb1);
                unsigned char *key = galloc(16, 0x91), *npub = galloc(16, 0x92), *m = galloc(mlen, 0x93), *ad = galloc(adlen, 0x94), *c = galloc(mlen + 16, 0x95), *m2 = galloc(mlen, 0x96);
                ascon_masked_key_128_init(k, key);
                WHAT("ascon128_masked_aead_encrypt mlen=%u adlen=%u", mlen, adlen); ascon128_masked_aead_encrypt(c, &clen, m, mlen, ad, adlen, npub, k);
                WHAT("ascon128_masked_aead_decrypt clen=%u adlen=%u", mlen + 16, adlen); ascon128_masked_aead_decrypt(m2, &mlen2, c, clen, ad, adlen, npub, k);
                WHAT("ascon128a_masked_aead_encrypt mlen=%u adlen=%u", mlen, adlen); ascon128a_masked_aead_encrypt(c, &clen, m, mlen, ad, adlen, npub, k);
                WHAT("ascon128a_masked_aead_decrypt clen=%u adlen=%u", mlen + 16, adlen); ascon128a_masked_aead_decrypt(m2, &mlen2, c, clen, ad, adlen, npub, k);
                ascon_masked_key_128_free(k); g_calls += 4; gfree_all();
            }
            {
                ascon_masked_key_160_t *k = galloc_aligned(sizeof(ascon_masked_key_160_t), 0xb1);
                unsigned char *key = galloc(20, 0x91), *npub = galloc(16, 0x92), *m = galloc(mlen, 0x93), *ad = galloc(adlen, 0x94), *c = galloc(mlen + 16, 0x95), *m2 = galloc(mlen, 0x96);
                ascon_masked_key_160_init(k, key);
                WHAT("ascon80pq_masked_aead_encrypt mlen=%u adlen=%u", mlen, adlen); ascon80pq_masked_aead_encrypt(c, &clen, m, mlen, ad, adlen, npub, k);
                WHAT("ascon80pq_masked_aead_decrypt clen=%u adlen=%u", mlen + 16, adlen); ascon80pq_masked_aead_decrypt(m2, &mlen2, c, clen, ad, adlen, npub, k);
                ascon_masked_key_160_free(k); g_calls += 2; gfree_all();
            }
        }
    }
}

/* ---- D. incremental AEAD: every argument an exact block (state object of exactly sizeof(state), key of exactly 16 / 20 bytes,
 *      16-byte nonce, AD, input and output chunks of exactly the lengths passed, 16-byte tag) */
typedef void (*f_iinit)(void *, const unsigned char *, const unsigned char *);
typedef void (*f_istart)(void *, const unsigned char *, size_t);
typedef void (*f_iblock)(void *, const unsigned char *, unsigned char *, size_t);
typedef void (*f_ifin)(void *, unsigned char *);
typedef int (*f_idfin)(void *, const unsigned char *);
typedef void (*f_ifree)(void *);
struct incfns { const char *name; size_t objsize; unsigned keylen; size_t nonce_off; f_iinit init, reinit; f_istart start; f_iblock eb, db; f_ifin ef; f_idfin df; f_ifree fr; };

static void inc_one(const struct incfns *F, unsigned mlen, unsigned adlen, unsigned split)
{
    void *st = galloc_aligned(F->objsize, 0xc1);
    unsigned char *key = galloc(F->keylen, 0x91), *npub = galloc(16, 0x92), *ad = galloc(adlen, 0x94);
    unsigned char *m1 = galloc(split, 0x93), *m2 = galloc(mlen - split, 0x97), *c1 = galloc(split, 0x95), *c2 = galloc(mlen - split, 0x98);
    unsigned char *tag = galloc(16, 0x99), *key2 = galloc(F->keylen, 0x9a), *npub2 = galloc(16, 0x9b);
    WHAT("%s_aead_init keylen=%u", F->name, F->keylen); F->init(st, npub, key);
    WHAT("%s_aead_start adlen=%u", F->name, adlen); F->start(st, adlen ? ad : 0, adlen);
    WHAT("%s_aead_encrypt_block len=%u (first of %u)", F->name, split, mlen); F->eb(st, m1, c1, split);
    WHAT("%s_aead_encrypt_block len=%u (after %u)", F->name, mlen - split, split); F->eb(st, m2, c2, mlen - split);
    WHAT("%s_aead_encrypt_finalize after mlen=%u", F->name, mlen); F->ef(st, tag);
    /* next packet of the session: the object's own nonce, a new key; decrypt in place */
    WHAT("%s_aead_reinit npub=own k=given", F->name); F->reinit(st, (unsigned char *)st + F->nonce_off, key2);
    WHAT("%s_aead_start adlen=%u (second packet)", F->name, adlen); F->start(st, ad, adlen);
    WHAT("%s_aead_decrypt_block len=%u in place", F->name, split); F->db(st, c1, c1, split);
    WHAT("%s_aead_decrypt_block len=%u (after %u)", F->name, mlen - split, split); F->db(st, c2, m2, mlen - split);
    WHAT("%s_aead_decrypt_finalize (wrong tag)", F->name); (void)F->df(st, tag);
    /* NULL forms, then a given nonce and key again */
    WHAT("%s_aead_reinit npub=NULL k=NULL", F->name); F->reinit(st, 0, 0);
    WHAT("%s_aead_reinit npub=given k=NULL", F->name); F->reinit(st, npub2, 0);
    WHAT("%s_aead_reinit npub=NULL k=given", F->name); F->reinit(st, 0, key2);
    WHAT("%s_aead_reinit npub=given k=given", F->name); F->reinit(st, npub2, key2);
    WHAT("%s_aead_start adlen=%u (third packet)", F->name, adlen); F->start(st, ad, adlen);
    WHAT("%s_aead_encrypt_block len=%u in place", F->name, split); F->eb(st, m1, m1, split);
    WHAT("%s_aead_encrypt_finalize (third packet)", F->name); F->ef(st, tag);
    WHAT("%s_aead_free", F->name); F->fr(st);
    g_calls += 20; gfree_all();
}

static void group_inc_modes(void)
{
    static const struct incfns F[3] = {
        { "ascon128", sizeof(ascon128_state_t), 16, offsetof(ascon128_state_t, nonce), (f_iinit)ascon128_aead_init, (f_iinit)ascon128_aead_reinit, (f_istart)ascon128_aead_start,
          (f_iblock)ascon128_aead_encrypt_block, (f_iblock)ascon128_aead_decrypt_block, (f_ifin)ascon128_aead_encrypt_finalize, (f_idfin)ascon128_aead_decrypt_finalize, (f_ifree)ascon128_aead_free },
        { "ascon128a", sizeof(ascon128a_state_t), 16, offsetof(ascon128a_state_t, nonce), (f_iinit)ascon128a_aead_init, (f_iinit)ascon128a_aead_reinit, (f_istart)ascon128a_aead_start,
          (f_iblock)ascon128a_aead_encrypt_block, (f_iblock)ascon128a_aead_decrypt_block, (f_ifin)ascon128a_aead_encrypt_finalize, (f_idfin)ascon128a_aead_decrypt_finalize, (f_ifree)ascon128a_aead_free },
        { "ascon80pq", sizeof(ascon80pq_state_t), 20, offsetof(ascon80pq_state_t, nonce), (f_iinit)ascon80pq_aead_init, (f_iinit)ascon80pq_aead_reinit, (f_istart)ascon80pq_aead_start,
          (f_iblock)ascon80pq_aead_encrypt_block, (f_iblock)ascon80pq_aead_decrypt_block, (f_ifin)ascon80pq_aead_encrypt_finalize, (f_idfin)ascon80pq_aead_decrypt_finalize, (f_ifree)ascon80pq_aead_free } };
    size_t i, j; int a;
    g_group = "inc-modes";
    for (a = 0; a < 3; ++a) {
        for (i = 0; i < NLENS; ++i) {
            for (j = (i + (size_t)a) % 3; j < NLENS; j += 3) {
                unsigned mlen = g_lens[i], adlen = g_lens[j];
                /* the split point walks over the block boundaries: 0, 1, rate-1 .. and the whole message */
                unsigned split = mlen == 0 ? 0 : (unsigned)((i * 7 + j * 3 + (size_t)a) % (mlen + 1));
                inc_one(&F[a], mlen, adlen, split);
            }
        }
        { void *st = galloc_aligned(F[a].objsize, 0xc1); WHAT("%s_aead_free(NULL), free of a fresh object", F[a].name); F[a].fr(0);
          F[a].init(st, 0, 0); F[a].fr(st); g_calls += 3; gfree_all(); }
    }
}

static int has_group(const char *groups, const char *name)
{
    size_t n = strlen(name);
    const char *p = groups;
    while (*p) {
        const char *e = strchr(p, ',');
        size_t len = e ? (size_t)(e - p) : strlen(p);
        if (len == n && !strncmp(p, name, n)) return 1;
        p += len;
        if (*p == ',') ++p;
    }
    return 0;
}

int main(int argc, char **argv)
{
    const char *groups = argc > 2 ? argv[2] : "state,masked-word,masked-state,modes,masked-modes,inc-modes";
    int pass;
    if (argc < 2) { fprintf(stderr, "usage: x_c12 guard|exact [groups]\n"); return 2; }
    g_guard = !strcmp(argv[1], "guard");
    g_page = sysconf(_SC_PAGESIZE);
    if (g_guard) {
        struct sigaction sa;
        memset(&sa, 0, sizeof(sa));
        sa.sa_handler = on_fault;
        sigaction(SIGSEGV, &sa, 0);
        sigaction(SIGBUS, &sa, 0);
    }
    setvbuf(stdout, 0, _IOLBF, 0);
    printf("CONFIG max_shares=%d key_shares=%d data_shares=%d mode=%s\n", ASCON_MASKED_MAX_SHARES, ASCON_MASKED_KEY_SHARES, ASCON_MASKED_DATA_SHARES, argv[1]);
    for (pass = 0; pass < (g_guard ? 2 : 1); ++pass) {
        g_at_end = !pass;
#define RUN(name, fn) if (has_group(groups, name)) { unsigned long c0 = g_calls; fn(); printf("OK %s placement=%s calls=%lu\n", name, g_guard ? (g_at_end ? "end" : "start") : "heap", g_calls - c0); }
        RUN("state", group_state)
        RUN("masked-word", group_masked_word)
        RUN("masked-state", group_masked_state)
        RUN("modes", group_modes)
        RUN("masked-modes", group_masked_modes)
        RUN("inc-modes", group_inc_modes)
    }
    return 0;
}
