/* Crypto oracle of the C19 check: evaluates, with the library built from
   /repo's working tree (libascon_static.a), the primitives that
   coq/Model/Clim.v leaves abstract.  The extracted model (ocaml/drv_clim.ml)
   talks to one instance of this program over a pair of FIFOs; lib/p_c19.py
   also calls it directly to predict file images.

   One request per line, one answer per line; byte strings in hex, "-" empty;
   chunk lists are comma separated, "." is the empty list.
     PBKDF2 pw salt                 ascon_pbkdf2(36 bytes, 8192 rounds)
     SIVENC k n ad m                ascon80pq_siv_encrypt
     SIVDEC k n ad c                ascon80pq_siv_decrypt       -> hex | NONE
     AENC k n ad prev d             init/start, encrypt_block for every chunk of prev, then d -> output for d
     AENCF k n ad chunks            ... encrypt_finalize -> tag
     ADEC k n ad prev d             same with decrypt_block
     ADECF k n ad chunks tag        ... decrypt_finalize -> 1 (tag accepted) | 0
     HASH alg chunks                alg 0 HASH, 1 HASHA, 2 XOF, 3 XOFA: init, update/absorb per chunk, finalize/squeeze 32
     RANDOM seed k n                ascon_random(n) when the system source is c19_fill(seed, k) -> hex
   getrandom is defined here, so the archive's ascon_trng_generate calls it
   (link-time substitution; nothing in /repo is changed). */
#define _GNU_SOURCE
#include <ascon/aead.h>
#include <ascon/hash.h>
#include <ascon/xof.h>
#include <ascon/pbkdf2.h>
#include <ascon/random.h>
#include <ascon/siv.h>
#include <stdio.h>
#include <stdlib.h>
#include <string.h>
#include <sys/types.h>
#include "c19_rand.h"

static unsigned long long g_seed, g_k;

ssize_t getrandom(void *buf, size_t n, unsigned int flags)
{
    (void)flags;
    c19_fill((unsigned char *)buf, n, g_seed, g_k);
    return (ssize_t)n;
}
int getentropy(void *buf, size_t n)
{
    c19_fill((unsigned char *)buf, n, g_seed, g_k);
    return 0;
}

typedef struct { unsigned char *p; size_t n; } buf_t;

static int hv(int c)
{
    if (c >= '0' && c <= '9') return c - '0';
    if (c >= 'a' && c <= 'f') return c - 'a' + 10;
    if (c >= 'A' && c <= 'F') return c - 'A' + 10;
    return -1;
}

/* decodes hex up to the end of the token or a comma; returns the position after it */
static const char *unhex(const char *s, buf_t *b)
{
    size_t cap = 16;
    b->p = (unsigned char *)malloc(cap);
    b->n = 0;
    if (*s == '-') return s + 1;
    while (hv(s[0]) >= 0 && hv(s[1]) >= 0) {
        if (b->n == cap) { cap *= 2; b->p = (unsigned char *)realloc(b->p, cap); }
        b->p[b->n++] = (unsigned char)(hv(s[0]) * 16 + hv(s[1]));
        s += 2;
    }
    return s;
}

static void puthex(const unsigned char *p, size_t n)
{
    size_t i;
    if (!n) { fputs("-\n", stdout); return; }
    for (i = 0; i < n; ++i) printf("%02x", p[i]);
    fputc('\n', stdout);
}

#define MAXTOK 8
int main(void)
{
    size_t cap = 1 << 20, len;
    char *line = (char *)malloc(cap);
    for (;;) {
        char *tok[MAXTOK];
        int nt = 0, c;
        char *s;
        len = 0;
        while ((c = getchar()) != EOF && c != '\n') {
            if (len + 2 >= cap) { cap *= 2; line = (char *)realloc(line, cap); }
            line[len++] = (char)c;
        }
        if (c == EOF && len == 0) break;
        line[len] = 0;
        for (s = strtok(line, " "); s && nt < MAXTOK; s = strtok(0, " ")) tok[nt++] = s;
        if (nt == 0) { fputs("ERR\n", stdout); fflush(stdout); continue; }
        if (!strcmp(tok[0], "PBKDF2") && nt == 3) {
            buf_t pw, salt; unsigned char out[36];
            unhex(tok[1], &pw); unhex(tok[2], &salt);
            ascon_pbkdf2(out, sizeof(out), pw.p, pw.n, salt.p, salt.n, 8192);
            puthex(out, sizeof(out));
            free(pw.p); free(salt.p);
        } else if ((!strcmp(tok[0], "SIVENC") || !strcmp(tok[0], "SIVDEC")) && nt == 5) {
            buf_t k, n, ad, m; size_t olen = 0; unsigned char *out;
            unhex(tok[1], &k); unhex(tok[2], &n); unhex(tok[3], &ad); unhex(tok[4], &m);
            out = (unsigned char *)malloc(m.n + 16);
            if (k.n != 20 || n.n != 16) fputs("ERR\n", stdout);
            else if (tok[0][3] == 'E') {
                ascon80pq_siv_encrypt(out, &olen, m.p, m.n, ad.p, ad.n, n.p, k.p);
                puthex(out, olen);
            } else {
                if (ascon80pq_siv_decrypt(out, &olen, m.p, m.n, ad.p, ad.n, n.p, k.p) != 0) fputs("NONE\n", stdout);
                else puthex(out, olen);
            }
            free(k.p); free(n.p); free(ad.p); free(m.p); free(out);
        } else if ((!strcmp(tok[0], "AENC") || !strcmp(tok[0], "ADEC") || !strcmp(tok[0], "AENCF") ||
                    !strcmp(tok[0], "ADECF")) && nt >= 5) {
            int dec = tok[0][1] == 'D';
            int fin = tok[0][4] == 'F';
            buf_t k, n, ad; ascon80pq_state_t st; const char *p = tok[4];
            unhex(tok[1], &k); unhex(tok[2], &n); unhex(tok[3], &ad);
            if (k.n != 20 || n.n != 16 || (!fin && nt != 6) || (fin && dec && nt != 6) || (fin && !dec && nt != 5)) {
                fputs("ERR\n", stdout);
            } else {
                ascon80pq_aead_init(&st, n.p, k.p);
                ascon80pq_aead_start(&st, ad.p, ad.n);
                if (*p != '.') {
                    for (;;) {
                        buf_t ch; unsigned char *o;
                        p = unhex(p, &ch);
                        o = (unsigned char *)malloc(ch.n + 1);
                        if (dec) ascon80pq_aead_decrypt_block(&st, ch.p, o, ch.n);
                        else ascon80pq_aead_encrypt_block(&st, ch.p, o, ch.n);
                        free(o); free(ch.p);
                        if (*p != ',') break;
                        ++p;
                    }
                }
                if (!fin) {
                    buf_t d; unsigned char *o;
                    unhex(tok[5], &d);
                    o = (unsigned char *)malloc(d.n + 1);
                    if (dec) ascon80pq_aead_decrypt_block(&st, d.p, o, d.n);
                    else ascon80pq_aead_encrypt_block(&st, d.p, o, d.n);
                    puthex(o, d.n);
                    free(o); free(d.p);
                } else if (!dec) {
                    unsigned char tag[16];
                    ascon80pq_aead_encrypt_finalize(&st, tag);
                    puthex(tag, 16);
                } else {
                    buf_t t;
                    unhex(tok[5], &t);
                    if (t.n != 16) fputs("ERR\n", stdout);
                    else fputs(ascon80pq_aead_decrypt_finalize(&st, t.p) == 0 ? "1\n" : "0\n", stdout);
                    free(t.p);
                }
                ascon80pq_aead_free(&st);
            }
            free(k.p); free(n.p); free(ad.p);
        } else if (!strcmp(tok[0], "HASH") && nt == 3) {
            int alg = atoi(tok[1]); const char *p = tok[2]; unsigned char out[32];
            ascon_hash_state_t h; ascon_hasha_state_t ha; ascon_xof_state_t x; ascon_xofa_state_t xa;
            if (alg == 0) ascon_hash_init(&h); else if (alg == 1) ascon_hasha_init(&ha);
            else if (alg == 2) ascon_xof_init(&x); else ascon_xofa_init(&xa);
            if (*p != '.') {
                for (;;) {
                    buf_t ch;
                    p = unhex(p, &ch);
                    if (alg == 0) ascon_hash_update(&h, ch.p, ch.n); else if (alg == 1) ascon_hasha_update(&ha, ch.p, ch.n);
                    else if (alg == 2) ascon_xof_absorb(&x, ch.p, ch.n); else ascon_xofa_absorb(&xa, ch.p, ch.n);
                    free(ch.p);
                    if (*p != ',') break;
                    ++p;
                }
            }
            if (alg == 0) { ascon_hash_finalize(&h, out); ascon_hash_free(&h); }
            else if (alg == 1) { ascon_hasha_finalize(&ha, out); ascon_hasha_free(&ha); }
            else if (alg == 2) { ascon_xof_squeeze(&x, out, 32); ascon_xof_free(&x); }
            else { ascon_xofa_squeeze(&xa, out, 32); ascon_xofa_free(&xa); }
            puthex(out, 32);
        } else if (!strcmp(tok[0], "RANDOM") && nt == 4) {
            size_t n = (size_t)strtoul(tok[3], 0, 10); unsigned char *out = (unsigned char *)malloc(n + 1);
            g_seed = strtoull(tok[1], 0, 10); g_k = strtoull(tok[2], 0, 10);
            if (!ascon_random(out, n)) fputs("NONE\n", stdout); else puthex(out, n);
            free(out);
        } else {
            fputs("ERR\n", stdout);
        }
        fflush(stdout);
    }
    return 0;
}
