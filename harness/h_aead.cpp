// AEAD one-shot and incremental operations (C API).
#include "hx.h"
#include <ascon/aead.h>
#include <ascon/permutation.h>

static std::string op_perm(const Toks &t) {
    Buf in(unhex(t[2])), out(40);       // exactly the bytes given / exactly 40 bytes (hx.h: exact, possibly misaligned)
    ascon_state_t st;
    ascon_init(&st);
    ascon_overwrite_bytes(&st, in.p, 0, 40);
    ascon_permute(&st, (uint8_t)atoi(t[1].c_str()));
    ascon_extract_bytes(&st, out.p, 0, 40);
    ascon_free(&st);
    return out.hx();
}
static Reg r_perm("PERM", op_perm);

typedef void (*enc_fn)(unsigned char *, size_t *, const unsigned char *, size_t, const unsigned char *, size_t,
                       const unsigned char *, const unsigned char *);
typedef int (*dec_fn)(unsigned char *, size_t *, const unsigned char *, size_t, const unsigned char *, size_t,
                      const unsigned char *, const unsigned char *);

static std::string op_ae(const Toks &t) {
    const std::string &v = t[1];
    enc_fn enc; dec_fn dec;
    if (v == "128") { enc = ascon128_aead_encrypt; dec = ascon128_aead_decrypt; }
    else if (v == "128a") { enc = ascon128a_aead_encrypt; dec = ascon128a_aead_decrypt; }
    else if (v == "80pq") { enc = ascon80pq_aead_encrypt; dec = ascon80pq_aead_decrypt; }
    else return "UNSUPPORTED";
    Buf k(unhex(t[3])), n(unhex(t[4])), ad(unhex(t[5]), true), in(unhex(t[6]), true);
    if (t[2] == "ENC") {
        Buf c(in.n + 16);
        size_t clen = (size_t)-7;
        enc(c.p, &clen, in.p, in.n, ad.p, ad.n, n.p, k.p);
        return c.hx() + " " + std::to_string(clen);
    } else if (t[2] == "DEC") {
        size_t mcap = in.n >= 16 ? in.n - 16 : 0;
        Buf m(mcap);
        size_t mlen = (size_t)-7;
        int r = dec(m.p, &mlen, in.p, in.n, ad.p, ad.n, n.p, k.p);
        if (in.n < 16) {
            if (r >= 0) return "SHORT-ACCEPTED";
            if (mlen != (size_t)-7 || !m.untouched()) return "SHORT-WROTE";
            return "SHORT";
        }
        if (mlen != mcap) return "BADMLEN " + std::to_string(mlen);
        return std::to_string(r < 0 ? -1 : r) + " " + m.hx();
    }
    return "UNSUPPORTED";
}
static Reg r_ae("AE", op_ae);

// ---- incremental objects ------------------------------------------------
struct IncObj {
    int v; // 0 = 128, 1 = 128a, 2 = 80pq
    union { ascon128_state_t a; ascon128a_state_t b; ascon80pq_state_t c; } u;
};
static std::map<int, IncObj *> incs;

static unsigned char *inc_nonce(IncObj *o) {
    return o->v == 0 ? o->u.a.nonce : o->v == 1 ? o->u.b.nonce : o->u.c.nonce;
}

// a key / nonce argument: NULL, or a caller buffer of exactly the bytes given (an empty byte string gives a null pointer, as
// the data() of an empty std::vector did)
struct OptBuf {
    Buf *b;
    explicit OptBuf(const std::string &tok) : b(tok == "NULL" ? 0 : new Buf(unhex(tok), true)) {}
    ~OptBuf() { delete b; }
    const unsigned char *p() const { return b ? b->p : 0; }
private: OptBuf(const OptBuf &); OptBuf &operator=(const OptBuf &);
};

static std::string op_ai(const Toks &t) {
    int slot = atoi(t[1].c_str());
    if (t.size() >= 6 && t[3] == "INIT") {
        IncObj *o = new IncObj; memset(o, 0xCD, sizeof(*o));
        o->v = t[2] == "128" ? 0 : t[2] == "128a" ? 1 : 2;
        OptBuf nb(t[4]), kb(t[5]);
        const unsigned char *np = nb.p(), *kp = kb.p();
        if (o->v == 0) ascon128_aead_init(&o->u.a, np, kp);
        else if (o->v == 1) ascon128a_aead_init(&o->u.b, np, kp);
        else ascon80pq_aead_init(&o->u.c, np, kp);
        if (incs.count(slot)) delete incs[slot];
        incs[slot] = o;
        return "OK";
    }
    if (!incs.count(slot)) return "NOSLOT";
    IncObj *o = incs[slot];
    const std::string &op = t[2];
    if (op == "REINIT") {
        OptBuf nb(t[3] == "SELF" ? std::string("NULL") : t[3]), kb(t[4] == "SELF" ? std::string("NULL") : t[4]);
        // SELF: the object's own field (documented as readable) handed back as the argument
        const unsigned char *np = t[3] == "SELF" ? inc_nonce(o) : nb.p();
        const unsigned char *kp = t[4] == "SELF" ? (o->v == 0 ? o->u.a.key : o->v == 1 ? o->u.b.key : o->u.c.key) : kb.p();
        if (o->v == 0) ascon128_aead_reinit(&o->u.a, np, kp);
        else if (o->v == 1) ascon128a_aead_reinit(&o->u.b, np, kp);
        else ascon80pq_aead_reinit(&o->u.c, np, kp);
        return "OK";
    }
    if (op == "START") {
        Buf ad(unhex(t[3]), true);
        if (o->v == 0) ascon128_aead_start(&o->u.a, ad.p, ad.n);
        else if (o->v == 1) ascon128a_aead_start(&o->u.b, ad.p, ad.n);
        else ascon80pq_aead_start(&o->u.c, ad.p, ad.n);
        return "OK";
    }
    if (op == "ENCB" || op == "DECB") {
        bool inplace = t.size() > 4 && t[4] == "I";
        bool enc = op == "ENCB";
        std::vector<unsigned char> d = unhex(t[3]);
        Buf in(d);
        Buf out2(d.size());
        unsigned char *outp = inplace ? in.p : out2.p;
        if (o->v == 0) (enc ? ascon128_aead_encrypt_block : ascon128_aead_decrypt_block)(&o->u.a, in.p, outp, d.size());
        else if (o->v == 1) (enc ? ascon128a_aead_encrypt_block : ascon128a_aead_decrypt_block)(&o->u.b, in.p, outp, d.size());
        else (enc ? ascon80pq_aead_encrypt_block : ascon80pq_aead_decrypt_block)(&o->u.c, in.p, outp, d.size());
        return inplace ? in.hx() : out2.hx();
    }
    if (op == "ENCF") {
        Buf tag(16);
        if (o->v == 0) ascon128_aead_encrypt_finalize(&o->u.a, tag.p);
        else if (o->v == 1) ascon128a_aead_encrypt_finalize(&o->u.b, tag.p);
        else ascon80pq_aead_encrypt_finalize(&o->u.c, tag.p);
        return tag.hx();
    }
    if (op == "DECF") {
        Buf tag(unhex(t[3]));
        int r;
        if (o->v == 0) r = ascon128_aead_decrypt_finalize(&o->u.a, tag.p);
        else if (o->v == 1) r = ascon128a_aead_decrypt_finalize(&o->u.b, tag.p);
        else r = ascon80pq_aead_decrypt_finalize(&o->u.c, tag.p);
        return std::to_string(r < 0 ? -1 : r);
    }
    if (op == "NONCE") return hex(inc_nonce(o), 16);
    if (op == "FREE") {
        if (o->v == 0) ascon128_aead_free(&o->u.a);
        else if (o->v == 1) ascon128a_aead_free(&o->u.b);
        else ascon80pq_aead_free(&o->u.c);
        delete o; incs.erase(slot);
        return "OK";
    }
    return "UNSUPPORTED";
}
static Reg r_ai("AI", op_ai);

// nonce helpers: NINC <nonce16> -> incremented nonce ; NSETCTR <decimal> -> 16 bytes
static std::string op_ninc(const Toks &t) {
    Buf n(unhex(t[1]));
    ascon_aead_increment_nonce(n.p);
    return n.hx();
}
static Reg r_ninc("NINC", op_ninc);
static std::string op_nsetctr(const Toks &t) {
    Buf n(16);
    ascon_aead_set_counter(n.p, (uint64_t)strtoull(t[1].c_str(), 0, 10));
    return n.hx();
}
static Reg r_nsetctr("NSETCTR", op_nsetctr);
