/* Deterministic "system random source" shared by the LD_PRELOAD shim
   (shim_c19.c) and the crypto oracle (c19_oracle.c) of the C19 check: the
   k-th request to getrandom/getentropy//dev/urandom under seed s returns
   c19_fill(buf, n, s, k).  splitmix64 keyed by (seed, call index). */
#ifndef C19_RAND_H
#define C19_RAND_H
#include <stddef.h>
static void c19_fill(unsigned char *buf, size_t n, unsigned long long seed, unsigned long long k)
{
    unsigned long long x = seed * 0x9E3779B97F4A7C15ULL + k * 0xD1342543DE82EF95ULL + 0x2545F4914F6CDD1DULL;
    size_t i;
    unsigned long long z = 0;
    for (i = 0; i < n; ++i) {
        if ((i & 7) == 0) {
            x += 0x9E3779B97F4A7C15ULL;
            z = x;
            z = (z ^ (z >> 30)) * 0xBF58476D1CE4E5B9ULL;
            z = (z ^ (z >> 27)) * 0x94D049BB133111EBULL;
            z ^= z >> 31;
        }
        buf[i] = (unsigned char)(z >> (8 * (i & 7)));
    }
}
#endif
