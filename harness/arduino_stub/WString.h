// STUB - not the Arduino core.  A minimal stand-in for the Arduino `String`
// class (hardware/arduino/avr/cores/arduino/WString.h), used ONLY by the C17
// check: the compile-coverage pass that builds the ARDUINO variant of
// ascon-suite's headers with the host compilers, and the `default-arduino`
// run-time harness (harness/h_cpp.cpp built with -DARDUINO=10819) that EXECUTES
// the String overloads (lib/p_c17.py, tools/gen_cpp_members.py; this directory
// is on the include path for those two uses only).  It is functional - a heap
// buffer of length() characters followed by a NUL, as in the real class - and
// has the members the library's headers and the harness use, with the
// signatures of the real class:
//   String(const char *cstr = ""), String(const String &), explicit String(char),
//   ~String(), operator=, const char *c_str() const, unsigned int length() const,
//   unsigned char concat(char | const char * | const String &), operator+=,
//   operator+ (String, String), equals / operator== / operator!=,
//   char charAt(unsigned int) const, char operator[](unsigned int) const.
// As in the real class a character appended with concat(char) may be NUL: the
// string then has an embedded NUL and length() counts it.
#ifndef VERIF_ARDUINO_STUB_WSTRING_H
#define VERIF_ARDUINO_STUB_WSTRING_H
#include <string.h>
#include <stdlib.h>

class String
{
public:
    String(const char *cstr = "") : buffer(0), len(0) { if (cstr) copy(cstr, (unsigned int)strlen(cstr)); }
    String(const String &str) : buffer(0), len(0) { if (str.buffer) copy(str.buffer, str.len); }
    explicit String(char c) : buffer(0), len(0) { copy(&c, 1); }
    ~String() { free(buffer); }
    String &operator=(const String &rhs) { if (this != &rhs) { free(buffer); buffer = 0; len = 0; if (rhs.buffer) copy(rhs.buffer, rhs.len); } return *this; }
    String &operator=(const char *cstr) { free(buffer); buffer = 0; len = 0; if (cstr) copy(cstr, (unsigned int)strlen(cstr)); return *this; }
    const char *c_str() const { return buffer ? buffer : ""; }
    unsigned int length() const { return len; }
    unsigned char concat(const char *s, unsigned int n) {
        if (!s) return 0;
        if (n == 0) return 1;
        char *nb = (char *)realloc(buffer, len + n + 1);
        if (!nb) return 0;
        buffer = nb; memcpy(buffer + len, s, n); len += n; buffer[len] = 0;
        return 1;
    }
    unsigned char concat(const String &str) { String tmp(str); return concat(tmp.c_str(), tmp.len); }
    unsigned char concat(const char *cstr) { return cstr ? concat(cstr, (unsigned int)strlen(cstr)) : 0; }
    unsigned char concat(char c) { return concat(&c, 1); }
    String &operator+=(const String &rhs) { concat(rhs); return *this; }
    String &operator+=(const char *cstr) { concat(cstr); return *this; }
    String &operator+=(char c) { concat(c); return *this; }
    unsigned char equals(const String &s) const { return len == s.len && (len == 0 || memcmp(buffer, s.buffer, len) == 0); }
    unsigned char equals(const char *cstr) const { return cstr ? (len == strlen(cstr) && memcmp(c_str(), cstr, len) == 0) : (len == 0); }
    unsigned char operator==(const String &rhs) const { return equals(rhs); }
    unsigned char operator==(const char *cstr) const { return equals(cstr); }
    unsigned char operator!=(const String &rhs) const { return !equals(rhs); }
    unsigned char operator!=(const char *cstr) const { return !equals(cstr); }
    char charAt(unsigned int index) const { return index < len ? buffer[index] : 0; }
    char operator[](unsigned int index) const { return charAt(index); }
private:
    void copy(const char *s, unsigned int n) { buffer = (char *)malloc(n + 1); if (buffer) { memcpy(buffer, s, n); buffer[n] = 0; len = n; } }
    char *buffer;
    unsigned int len;
};
inline String operator+(const String &a, const String &b) { String r(a); r.concat(b); return r; }
inline String operator+(const String &a, const char *b) { String r(a); r.concat(b); return r; }
#endif
