// STUB - not the Arduino core.  A minimal stand-in for the Arduino `String`
// class (hardware/arduino/avr/cores/arduino/WString.h), used ONLY by the C17
// compile-coverage pass that builds the ARDUINO variant of ascon-suite's
// headers with the host compilers (lib/p_c17.py, tools/gen_cpp_members.py;
// this directory is on the include path for that pass only).  It has the
// members the library's headers use, with the signatures of the real class:
//   String(const char *cstr = ""), String(const String &), ~String(),
//   const char *c_str() const, unsigned int length() const.
#ifndef VERIF_ARDUINO_STUB_WSTRING_H
#define VERIF_ARDUINO_STUB_WSTRING_H
#include <string.h>
#include <stdlib.h>

class String
{
public:
    String(const char *cstr = "") : buffer(0), len(0) { if (cstr) copy(cstr, (unsigned int)strlen(cstr)); }
    String(const String &str) : buffer(0), len(0) { if (str.buffer) copy(str.buffer, str.len); }
    ~String() { free(buffer); }
    String &operator=(const String &rhs) { if (this != &rhs) { free(buffer); buffer = 0; len = 0; if (rhs.buffer) copy(rhs.buffer, rhs.len); } return *this; }
    const char *c_str() const { return buffer ? buffer : ""; }
    unsigned int length() const { return len; }
private:
    void copy(const char *s, unsigned int n) { buffer = (char *)malloc(n + 1); if (buffer) { memcpy(buffer, s, n); buffer[n] = 0; len = n; } }
    char *buffer;
    unsigned int len;
};
#endif
