// STUB - not the Arduino core: see WString.h in this directory.  Only what a
// sketch's implicit `#include <Arduino.h>` must provide for ascon-suite's
// headers to be usable: the String class and the fixed-width integer types.
#ifndef VERIF_ARDUINO_STUB_ARDUINO_H
#define VERIF_ARDUINO_STUB_ARDUINO_H
#include <stdint.h>
#include <stddef.h>
#include "WString.h"
#endif
