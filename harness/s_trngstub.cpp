// For harness variants that link the library's REAL random source (no h_trng.cpp): the call counter the
// PRNG operations refer to (the real source is observed through the LD_PRELOAD shim instead).
unsigned long g_trng_sys_calls = 0;
