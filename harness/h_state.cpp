// Public state primitives: ST <op> <state40> <offset> <size> <data>
//   ADD / OVW / ZERO / EXT / EXTADD / EXTOVW (EXTOVW... I = same buffer for input and output)
#include "hx.h"
#include <ascon/permutation.h>

static std::string op_st(const Toks &t) {
    const std::string &op = t[1];
    std::vector<unsigned char> st0 = unhex(t[2]);
    unsigned off = (unsigned)atoi(t[3].c_str()), size = (unsigned)atoi(t[4].c_str());
    std::vector<unsigned char> data = t.size() > 5 ? unhex(t[5]) : std::vector<unsigned char>();
    bool inplace = t.size() > 6 && t[6] == "I";
    ascon_state_t st; unsigned char full[40];
    ascon_init(&st);
    ascon_overwrite_bytes(&st, st0.data(), 0, 40);
    std::string outhex = "-";
    Buf in(data, true);
    Buf out(size);
    if (op == "ADD") ascon_add_bytes(&st, in.p, off, size);
    else if (op == "OVW") ascon_overwrite_bytes(&st, in.p, off, size);
    else if (op == "ZERO") ascon_overwrite_with_zeroes(&st, off, size);
    else if (op == "EXT") { ascon_extract_bytes(&st, out.p, off, size); outhex = out.hx(); }
    else if (op == "EXTADD") { ascon_extract_and_add_bytes(&st, in.p, out.p, off, size); outhex = out.hx(); }
    else if (op == "EXTOVW") {
        if (inplace) { ascon_extract_and_overwrite_bytes(&st, in.p, in.p, off, size); outhex = in.hx(); }
        else { ascon_extract_and_overwrite_bytes(&st, in.p, out.p, off, size); outhex = out.hx(); }
    } else return "UNSUPPORTED";
    ascon_extract_bytes(&st, full, 0, 40);
    ascon_free(&st);
    return hex(full, 40) + " " + outhex;
}
static Reg r_st("ST", op_st);

// STC COPY <state40> <junk40>: ascon_copy into a destination that held something else; STC CLEAN <bytes>: ascon_clean
#include <ascon/utility.h>
static std::string op_stc(const Toks &t) {
    if (t[1] == "COPY") {
        std::vector<unsigned char> a = unhex(t[2]), j = unhex(t[3]);
        ascon_state_t src, dst; unsigned char o1[40], o2[40];
        ascon_init(&src); ascon_overwrite_bytes(&src, a.data(), 0, 40); ascon_release(&src);
        ascon_init(&dst); ascon_overwrite_bytes(&dst, j.data(), 0, 40); ascon_release(&dst);
        ascon_copy(&dst, &src);
        ascon_acquire(&dst); ascon_extract_bytes(&dst, o1, 0, 40); ascon_free(&dst);
        ascon_acquire(&src); ascon_extract_bytes(&src, o2, 0, 40); ascon_free(&src);
        return hex(o1, 40) + " " + hex(o2, 40);
    }
    if (t[1] == "CLEAN") {
        Buf b(unhex(t[2]));
        ascon_clean(b.p, (unsigned)b.n);
        return b.hx();
    }
    return "UNSUPPORTED";
}
static Reg r_stc("STC", op_stc);

// PERMN <12|8|6> <state40>: the ascon_permute12/8/6 macros; VER: ascon_suite_version() against the header's macro
extern "C" { int ascon_suite_version(void); }
static std::string op_permn(const Toks &t) {
    std::vector<unsigned char> in = unhex(t[2]);
    ascon_state_t st; unsigned char out[40];
    ascon_init(&st);
    ascon_overwrite_bytes(&st, in.data(), 0, 40);
    if (t[1] == "12") ascon_permute12(&st); else if (t[1] == "8") ascon_permute8(&st); else if (t[1] == "6") ascon_permute6(&st); else { ascon_free(&st); return "UNSUPPORTED"; }
    ascon_extract_bytes(&st, out, 0, 40);
    ascon_free(&st);
    return hex(out, 40);
}
static Reg r_permn("PERMN", op_permn);
static std::string op_ver(const Toks &t) {
    (void)t;
    int v = ascon_suite_version();
    return v > 0 ? "version-positive" : "version-nonpositive " + std::to_string(v);
}
static Reg r_ver("VER", op_ver);
