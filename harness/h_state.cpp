// Public state primitives: ST <op> <state40> <offset> <size> <data>
//   ADD / OVW / ZERO / EXT / EXTADD / EXTOVW (EXTOVW... I = same buffer for input and output)
#include "hx.h"
#include <ascon/permutation.h>

static std::string op_st(const Toks &t) {
    const std::string &op = t[1];
    std::vector<unsigned char> st0 = unhex(t[2]);
    unsigned off = (unsigned)atoi(t[3].c_str()), size = (unsigned)atoi(t[4].c_str());
    std::vector<unsigned char> data = t.size() > 5 ? unhex(t[5]) : std::vector<unsigned char>();
    bool inplace = t.size() > 6 && t[6] == "I";
    ascon_state_t st; unsigned char full[40];
    ascon_init(&st);
    ascon_overwrite_bytes(&st, st0.data(), 0, 40);
    std::string outhex = "-";
    Buf in(data, true);
    Buf out(size);
    if (op == "ADD") ascon_add_bytes(&st, in.p, off, size);
    else if (op == "OVW") ascon_overwrite_bytes(&st, in.p, off, size);
    else if (op == "ZERO") ascon_overwrite_with_zeroes(&st, off, size);
    else if (op == "EXT") { ascon_extract_bytes(&st, out.p, off, size); outhex = out.hx(); }
    else if (op == "EXTADD") { ascon_extract_and_add_bytes(&st, in.p, out.p, off, size); outhex = out.hx(); }
    else if (op == "EXTOVW") {
        if (inplace) { ascon_extract_and_overwrite_bytes(&st, in.p, in.p, off, size); outhex = in.hx(); }
        else { ascon_extract_and_overwrite_bytes(&st, in.p, out.p, off, size); outhex = out.hx(); }
    } else return "UNSUPPORTED";
    ascon_extract_bytes(&st, full, 0, 40);
    ascon_free(&st);
    return hex(full, 40) + " " + outhex;
}
static Reg r_st("ST", op_st);
