// PRNG ("RN"): one generator object; the system source is scripted through TRNG SYS (h_trng.cpp),
// the storage callbacks through the arguments of SAVE / LOAD.
#include "hx.h"
#include <ascon/random.h>
#include <ascon/storage.h>
#include <ascon/permutation.h>

extern unsigned long g_trng_sys_calls;
static ascon_random_state_t *g_rng = 0;
static unsigned long g_calls_base = 0;

struct Script { int rr; std::vector<unsigned char> rdata; int wr; std::string written; bool wrote; };
static Script g_sc;
static int st_read(const ascon_storage_t *st, size_t offset, unsigned char *data, size_t size) {
    (void)st; (void)offset;
    if (g_sc.rr > 0) for (size_t i = 0; i < size && i < (size_t)g_sc.rr; ++i) data[i] = i < g_sc.rdata.size() ? g_sc.rdata[i] : 0;
    return g_sc.rr;
}
static int st_write(const ascon_storage_t *st, size_t offset, const unsigned char *data, size_t size, int erase) {
    (void)st; (void)offset; (void)erase;
    g_sc.written = hex(data, size); g_sc.wrote = true;
    return g_sc.wr;
}

static std::string op_rn(const Toks &t) {
    const std::string &op = t[1];
    if (op == "INIT") {
        if (g_rng) { ascon_random_free(g_rng); delete g_rng; }
        g_rng = new ascon_random_state_t; memset(g_rng, 0xCD, sizeof(*g_rng));
        g_calls_base = g_trng_sys_calls;
        int ok = ascon_random_init(g_rng);
        return std::to_string(ok);
    }
    if (op == "ONESHOT") {
        size_t n = (size_t)atoi(t[2].c_str());
        Buf out(n);
        if (!g_rng) g_calls_base = g_trng_sys_calls;
        int r = ascon_random(out.p, n);
        return std::to_string(r) + " " + out.hx();
    }
    if (op == "CALLS") return std::to_string(g_trng_sys_calls - g_calls_base);
    if (!g_rng) return "NOSLOT";
    if (op == "RESEED") return std::to_string(ascon_random_reseed(g_rng));
    if (op == "FETCH") { size_t n = (size_t)atoi(t[2].c_str()); Buf out(n); ascon_random_fetch(g_rng, out.p, n); return out.hx(); }
    if (op == "FEED") { Buf d(unhex(t[2]), true); ascon_random_feed(g_rng, d.p, d.n); return "OK"; }
    if (op == "SAVE" || op == "LOAD") {
        ascon_storage_t st; memset(&st, 0, sizeof(st));
        const ascon_storage_t *sp = 0;
        g_sc.wrote = false; g_sc.written = "";
        if (t[2] != "NULL") {
            st.page_size = 1; st.erase_size = 0; st.address = 0; st.size = (size_t)atoi(t[2].c_str()); st.partial_writes = 1;
            st.read = st_read; st.write = st_write;
            g_sc.rr = atoi(t[3].c_str()); g_sc.rdata = unhex(t[4]); g_sc.wr = atoi(t[5].c_str());
            sp = &st;
        }
        int r = op == "SAVE" ? ascon_random_save_seed(g_rng, sp) : ascon_random_load_seed(g_rng, sp);
        return std::to_string(r) + " " + (g_sc.wrote ? g_sc.written : "NOWRITE");
    }
    if (op == "STATE") {
        unsigned char b[40];
        ascon_acquire(&g_rng->xof.state); ascon_extract_bytes(&g_rng->xof.state, b, 0, 40); ascon_release(&g_rng->xof.state);
        return std::to_string(g_rng->counter) + " " + std::to_string(g_rng->xof.count) + " " + std::to_string(g_rng->xof.mode) + " " + hex(b, 40);
    }
    if (op == "FREE") { ascon_random_free(g_rng); delete g_rng; g_rng = 0; return "OK"; }
    return "UNSUPPORTED";
}
static Reg r_rn("RN", op_rn);
