// PRNG ("RN"): one generator object; the system source is scripted through TRNG SYS (h_trng.cpp),
// the storage callbacks and the storage geometry through the arguments of SAVE / LOAD.
#include "hx.h"
#include <ascon/random.h>
#include <ascon/storage.h>
#include <ascon/permutation.h>

extern unsigned long g_trng_sys_calls;
static ascon_random_state_t *g_rng = 0;
static unsigned long g_calls_base = 0;

// Every call of a storage callback is logged with the arguments it receives (offset into the region, byte count, erase
// request, for write the bytes) - the log is part of the operation's result line and must equal the model's prediction
// (Model/Prngm.v: cb_call; of a write longer than the 32-byte seed only the first 32 bytes are printed, then +MORE).  BADPTR: the callback was not handed the caller's descriptor; NULLDATA: a write without bytes.
struct Script { int rr; std::vector<unsigned char> rdata; int wr; std::string log; unsigned ncalls; const ascon_storage_t *expect; };
static Script g_sc;
static int st_read(const ascon_storage_t *st, size_t offset, unsigned char *data, size_t size) {
    g_sc.ncalls++;
    g_sc.log += " R:" + std::to_string(offset) + ":" + std::to_string(size) + (st == g_sc.expect ? "" : ":BADPTR") + (data ? "" : ":NULLDATA");
    if (g_sc.rr > 0 && data) for (size_t i = 0; i < size && i < (size_t)g_sc.rr; ++i) data[i] = i < g_sc.rdata.size() ? g_sc.rdata[i] : 0;
    return g_sc.rr;
}
static int st_write(const ascon_storage_t *st, size_t offset, const unsigned char *data, size_t size, int erase) {
    g_sc.ncalls++;
    // a storage driver reads all `size` bytes it is handed: so does this one (a size beyond the caller's buffer is then seen by the
    // sanitised builds of C12 as an over-read); sizes the library never legitimately passes are capped to keep the run alive
    if (data) { volatile unsigned char acc = 0; for (size_t i = 0; i < size && i < 65536; ++i) acc ^= data[i]; (void)acc; }
    g_sc.log += " W:" + std::to_string(offset) + ":" + std::to_string(size) + ":" + (erase ? "1" : "0") + ":" + (data ? hex(data, size < 32 ? size : 32) + (size > 32 ? "+MORE" : "") : std::string("NULLDATA"))
              + (st == g_sc.expect ? "" : ":BADPTR");
    return g_sc.wr;
}

static std::string op_rn(const Toks &t) {
    const std::string &op = t[1];
    if (op == "INIT") {
        if (g_rng) { ascon_random_free(g_rng); delete g_rng; }
        g_rng = new ascon_random_state_t; memset(g_rng, 0xCD, sizeof(*g_rng));
        g_calls_base = g_trng_sys_calls;
        int ok = ascon_random_init(g_rng);
        return std::to_string(ok);
    }
    if (op == "ONESHOT") {
        size_t n = (size_t)atoi(t[2].c_str());
        Buf out(n);
        if (!g_rng) g_calls_base = g_trng_sys_calls;
        int r = ascon_random(out.p, n);
        return std::to_string(r) + " " + out.hx();
    }
    if (op == "CALLS") return std::to_string(g_trng_sys_calls - g_calls_base);
    if (!g_rng) return "NOSLOT";
    if (op == "RESEED") return std::to_string(ascon_random_reseed(g_rng));
    if (op == "FETCH") { size_t n = (size_t)atoi(t[2].c_str()); Buf out(n); ascon_random_fetch(g_rng, out.p, n); return out.hx(); }
    if (op == "FEED") { Buf d(unhex(t[2]), true); ascon_random_feed(g_rng, d.p, d.n); return "OK"; }
    if (op == "SAVE" || op == "LOAD") {
        // RN SAVE|LOAD NULL   or   RN SAVE|LOAD <size> <read result> <read data> <write result> [<page_size> <erase_size> <address> <partial_writes>]
        ascon_storage_t st; memset(&st, 0, sizeof(st));
        const ascon_storage_t *sp = 0;
        g_sc.log = ""; g_sc.ncalls = 0; g_sc.expect = 0;
        if (t[2] != "NULL") {
            st.page_size = 1; st.erase_size = 0; st.address = 0; st.size = (size_t)atol(t[2].c_str()); st.partial_writes = 1;
            if (t.size() >= 10) {
                st.page_size = (size_t)atol(t[6].c_str()); st.erase_size = (size_t)atol(t[7].c_str());
                st.address = (size_t)atol(t[8].c_str()); st.partial_writes = atoi(t[9].c_str());
            }
            st.read = st_read; st.write = st_write;
            g_sc.rr = atoi(t[3].c_str()); g_sc.rdata = unhex(t[4]); g_sc.wr = atoi(t[5].c_str());
            sp = &st; g_sc.expect = sp;
        }
        ascon_storage_t before = st;
        int r = op == "SAVE" ? ascon_random_save_seed(g_rng, sp) : ascon_random_load_seed(g_rng, sp);
        // the descriptor is const for the library
        bool same = before.page_size == st.page_size && before.erase_size == st.erase_size && before.address == st.address && before.size == st.size
                    && before.partial_writes == st.partial_writes && before.read == st.read && before.write == st.write;
        return std::to_string(r) + " calls=" + std::to_string(g_sc.ncalls) + g_sc.log + (same ? "" : " DESCRIPTOR-CHANGED");
    }
    if (op == "STATE") {
        unsigned char b[40];
        ascon_acquire(&g_rng->xof.state); ascon_extract_bytes(&g_rng->xof.state, b, 0, 40); ascon_release(&g_rng->xof.state);
        return std::to_string(g_rng->counter) + " " + std::to_string(g_rng->xof.count) + " " + std::to_string(g_rng->xof.mode) + " " + hex(b, 40);
    }
    if (op == "FREE") { ascon_random_free(g_rng); delete g_rng; g_rng = 0; return "OK"; }
    return "UNSUPPORTED";
}
static Reg r_rn("RN", op_rn);
