// C20 - hex codec: ascon_bytes_to_hex / ascon_bytes_from_hex and the C++
// helpers ascon::bytes_to_hex / ascon::bytes_from_hex (STL configuration).
#include "hx.h"
#include <ascon/utility.h>

// the characters of a string given as hex ("-" = empty)
static std::string chars(const std::string &h) {
    std::vector<unsigned char> v = unhex(h);
    return std::string(v.begin(), v.end());
}
static std::string show(const ascon::byte_array &b) {
    return std::to_string(b.size()) + " " + hex(b.data(), b.size());
}
static std::string show(const std::string &s) {
    return std::to_string(s.size()) + " " + hex((const unsigned char *)s.data(), s.size());
}

// HEXENC outlen in upper : out buffer of exactly outlen characters filled with 0xEE
static std::string op_hexenc(const Toks &t) {
    size_t outlen = strtoul(t[1].c_str(), 0, 10);
    Buf in(unhex(t[2]), true);
    Buf out(outlen, false, 0xEE);
    int r = ascon_bytes_to_hex((char *)out.p, outlen, in.p, in.n, atoi(t[3].c_str()));
    return std::to_string(r) + " " + out.hx();
}
static Reg r_hexenc("HEXENC", op_hexenc);

// HEXDEC outlen str
static std::string op_hexdec(const Toks &t) {
    size_t outlen = strtoul(t[1].c_str(), 0, 10);
    Buf in(unhex(t[2]), false);
    Buf out(outlen, false, 0xEE);
    int r = ascon_bytes_from_hex(out.p, outlen, (const char *)in.p, in.n);
    return std::to_string(r) + " " + out.hx();
}
static Reg r_hexdec("HEXDEC", op_hexdec);

// HEXRT in upper : encode into an exact buffer, decode what was written into an exact buffer
static std::string op_hexrt(const Toks &t) {
    Buf in(unhex(t[1]), true);
    Buf s(in.n * 2 + 1, false, 0xEE);
    int r = ascon_bytes_to_hex((char *)s.p, s.n, in.p, in.n, atoi(t[2].c_str()));
    Buf out(in.n, false, 0xEE);
    int r2 = ascon_bytes_from_hex(out.p, out.n, (const char *)s.p, r < 0 ? 0 : (size_t)r);
    return std::to_string(r) + " " + std::to_string(r2) + " " + out.hx();
}
static Reg r_hexrt("HEXRT", op_hexrt);

// HEXCPP PL|ST|PZ str   (PZ NULL = null pointer)
static std::string op_hexcpp(const Toks &t) {
    if (t[1] == "PZ" && t[2] == "NULL") return show(ascon::bytes_from_hex((const char *)0));
    std::string s = chars(t[2]);
    if (t[1] == "PL") {
        Buf in(unhex(t[2]), false);          // exact-size copy: a read past len is seen by the sanitizer build
        return show(ascon::bytes_from_hex((const char *)in.p, in.n));
    }
    if (t[1] == "ST") return show(ascon::bytes_from_hex(s));
    if (t[1] == "PZ") return show(ascon::bytes_from_hex(s.c_str()));
    return "UNSUPPORTED";
}
static Reg r_hexcpp("HEXCPP", op_hexcpp);

// HEXCPPENC P|BA in upper(0|1|D)    D = default argument
static std::string op_hexcppenc(const Toks &t) {
    std::vector<unsigned char> in = unhex(t[2]);
    bool dflt = t[3] == "D", upper = t[3] == "1";
    if (t[1] == "P") {
        Buf b(in, false);
        return show(dflt ? ascon::bytes_to_hex(b.p, b.n) : ascon::bytes_to_hex(b.p, b.n, upper));
    }
    if (t[1] == "BA") {
        ascon::byte_array a(in.begin(), in.end());
        return show(dflt ? ascon::bytes_to_hex(a) : ascon::bytes_to_hex(a, upper));
    }
    return "UNSUPPORTED";
}
static Reg r_hexcppenc("HEXCPPENC", op_hexcppenc);
