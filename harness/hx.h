// Shared helpers for the correspondence harness (C++11).
#ifndef VERIF_HX_H
#define VERIF_HX_H
#include <string>
#include <vector>
#include <map>
#include <cstdio>
#include <cstdlib>
#include <cstring>
#include <cstdint>
#include <stdexcept>

typedef std::vector<std::string> Toks;
typedef std::string (*Handler)(const Toks &);
void register_handler(const char *name, Handler h);
struct Reg { Reg(const char *n, Handler h) { register_handler(n, h); } };

static inline int hexval(char c) {
    if (c >= '0' && c <= '9') return c - '0';
    if (c >= 'a' && c <= 'f') return c - 'a' + 10;
    if (c >= 'A' && c <= 'F') return c - 'A' + 10;
    throw std::runtime_error("bad hex");
}
static inline std::vector<unsigned char> unhex(const std::string &s) {
    std::vector<unsigned char> v;
    if (s == "-") return v;
    for (size_t i = 0; i + 1 < s.size(); i += 2)
        v.push_back((unsigned char)(hexval(s[i]) * 16 + hexval(s[i + 1])));
    return v;
}
static inline std::string hex(const unsigned char *p, size_t n) {
    if (n == 0) return "-";
    static const char *d = "0123456789abcdef";
    std::string s;
    for (size_t i = 0; i < n; ++i) { s += d[p[i] >> 4]; s += d[p[i] & 15]; }
    return s;
}
static inline std::string hex(const std::vector<unsigned char> &v) { return hex(v.data(), v.size()); }

extern bool g_canary_failed;    // set when a guard byte around a Buf was damaged
extern bool g_exact;            // VERIF_EXACT=1: exact-size heap blocks (for ASan), no guards
extern unsigned g_misalign;     // VERIF_MISALIGN=k (1..15): every caller buffer starts k bytes after a 16-aligned address

// A caller-side buffer of exactly n usable bytes.  Default: 32 guard bytes
// of 0xA5 on both sides, verified on destruction.  Exact mode: malloc(n)
// so that a sanitizer sees any overrun.  n = 0 gives a valid one-past
// pointer (or NULL when null_if_empty).
struct Buf {
    unsigned char *base; unsigned char *p; unsigned char *q; size_t n; bool exact; unsigned k;
    // aligned = true: an OBJECT (a C struct with 64-bit members, a C++ object) rather than a byte buffer: exact size too, but
    // it keeps the 16-byte alignment of malloc (a misaligned struct would be the caller's fault, not the library's)
    explicit Buf(size_t n_, bool null_if_empty = false, unsigned char fill = 0xEE, bool aligned = false) : n(n_) {
        exact = g_exact;
        k = aligned ? 0 : g_misalign;
        if (exact) {
            // the END of the block is exact (a sanitizer sees any over-read/over-write), the start is misaligned by k
            base = (unsigned char *)malloc((n ? n : 1) + k);
            q = base + k;
            p = (n == 0 && null_if_empty) ? 0 : q;
            memset(base, fill, (n ? n : 1) + k);
        } else {
            base = (unsigned char *)malloc(n + 64 + k);
            memset(base, 0xA5, n + 64 + k);
            q = p = base + 32 + k;
            memset(p, fill, n);
            if (n == 0 && null_if_empty) p = 0;
        }
    }
    Buf(const std::vector<unsigned char> &v, bool null_if_empty = false) : Buf(v.size(), null_if_empty) {
        if (v.size()) memcpy(p, v.data(), v.size());
    }
    bool ok() const {
        if (exact) return true;
        for (unsigned i = 0; i < 32 + k; ++i)
            if (base[i] != 0xA5) return false;
        for (int i = 0; i < 32; ++i)
            if (q[n + i] != 0xA5) return false;
        return true;
    }
    ~Buf() { if (!ok()) g_canary_failed = true; free(base); }
    std::string hx() const { return hex(q, n); }
    bool untouched(unsigned char fill = 0xEE) const {
        for (size_t i = 0; i < n; ++i) if (q[i] != fill) return false;
        return true;
    }
private:
    Buf(const Buf &); Buf &operator=(const Buf &);
};
#endif
