/* LD_PRELOAD shim of the C19 check (asconcrypt / asconsum under faults).
   Built by lib/p_c19.py:  gcc -shared -fPIC -O1 -o shim_c19.so shim_c19.c -ldl

   Environment:
     C19_RSEED=<n>      getrandom / getentropy / reads of /dev/urandom and /dev/random
                        return c19_fill(seed n, call index) instead of system entropy
     C19_FAULTS=<list>  comma separated fault selectors, each applying to the k-th call
                        (k counted from 0) of its class:
                          o<k>        open/open64/openat/creat/fopen/fopen64 fails (EACCES, nothing created)
                          r<k>f       read / fread fails (EIO; fread: 0 items, stream error flag set)
                          r<k>s<n>    read / fread transfers at most n+1 bytes (fread: and sets the error flag)
                          r<k>e       read fails once with EINTR (the call still counts)
                          w<k>f       write fails (ENOSPC)
                          w<k>s<n>    write transfers at most n+1 bytes
                          w<k>e       write fails once with EINTR
                          g<k>        getrandom/getentropy fails (EIO)
                          l<k>        fgets fails (NULL, stream error flag set)
                          c<k>        close/fclose reports failure (EIO) after really closing (any descriptor)
                          cw<k>       the same for the k-th close of a descriptor / stream opened for WRITING
                          cr<k>       the same for the k-th close of a descriptor / stream opened read-only
     C19_TTY=1          isatty(0) and isatty(1) return 1
     C19_GETPASS=<list> getpass() does not touch the terminal: its k-th call returns the k-th element of the
                        comma separated list - hex bytes, "-" (empty string) or NULL; past the end: NULL.
                        The string is handed out in a heap block of exactly strlen+1 bytes (so that an
                        address sanitizer sees any access beyond it); unset: the C library's getpass
     C19_REPORT=<file>  at exit the number of calls per class is written there
   The classes and the numbering are those of coq/Model/Clim.v (cls, oracle).
   Only calls made through the PLT are seen (the applications' own calls and
   the library's getrandom); libc-internal I/O (stdio's read/write, perror)
   is not.  Descriptors 0-2 are never faulted. */
#define _GNU_SOURCE
#include <dlfcn.h>
#include <errno.h>
#include <fcntl.h>
#include <stdarg.h>
#include <stdio.h>
#include <stdlib.h>
#include <string.h>
#include <sys/types.h>
#include <unistd.h>
#include "c19_rand.h"

enum { C_OPEN, C_READ, C_WRITE, C_RAND, C_GETS, C_CLOSE, C_UNLINK, C_CLOSEW, C_CLOSER, C_GETPASS, NCLS };
enum { K_NONE, K_FAIL, K_SHORT, K_EINTR };
struct fault { int cls; long k; int kind; long n; int used; };
static struct fault faults[64];
static int nfaults;
static long counts[NCLS];
static int inited;
static int have_seed;
static unsigned long long rseed;
static int urandom_fd[8];
static int n_urandom;

static void init(void)
{
    const char *s;
    if (inited) return;
    inited = 1;
    s = getenv("C19_RSEED");
    if (s && *s) { have_seed = 1; rseed = strtoull(s, 0, 10); }
    s = getenv("C19_FAULTS");
    while (s && *s && nfaults < 64) {
        struct fault f;
        char *e;
        memset(&f, 0, sizeof(f));
        switch (*s) {
        case 'o': f.cls = C_OPEN; break;
        case 'r': f.cls = C_READ; break;
        case 'w': f.cls = C_WRITE; break;
        case 'g': f.cls = C_RAND; break;
        case 'l': f.cls = C_GETS; break;
        case 'c': f.cls = C_CLOSE;
                  if (s[1] == 'w') { f.cls = C_CLOSEW; ++s; }
                  else if (s[1] == 'r') { f.cls = C_CLOSER; ++s; }
                  break;
        default: f.cls = -1; break;
        }
        ++s;
        f.k = strtol(s, &e, 10);
        s = e;
        f.kind = K_FAIL;
        if (*s == 'f') { ++s; }
        else if (*s == 'e') { f.kind = K_EINTR; ++s; }
        else if (*s == 's') { f.kind = K_SHORT; ++s; f.n = strtol(s, &e, 10); s = e; }
        if (f.cls >= 0) faults[nfaults++] = f;
        while (*s && *s != ',') ++s;
        if (*s == ',') ++s;
    }
}

/* the fault selected for the call that is about to be made; counts it */
static struct fault *next_fault(int cls)
{
    long k;
    int i;
    init();
    k = counts[cls]++;
    for (i = 0; i < nfaults; ++i)
        if (faults[i].cls == cls && faults[i].k == k)
            return &faults[i];
    return 0;
}

__attribute__((destructor)) static void report(void)
{
    const char *p = getenv("C19_REPORT");
    int (*real_open)(const char *, int, ...) = (int (*)(const char *, int, ...))dlsym(RTLD_NEXT, "open");
    ssize_t (*real_write)(int, const void *, size_t) = (ssize_t (*)(int, const void *, size_t))dlsym(RTLD_NEXT, "write");
    int (*real_close)(int) = (int (*)(int))dlsym(RTLD_NEXT, "close");
    char buf[256];
    int fd, n;
    if (!p || !*p) return;
    fd = real_open(p, O_CREAT | O_TRUNC | O_WRONLY, 0600);
    if (fd < 0) return;
    n = snprintf(buf, sizeof(buf), "open=%ld read=%ld write=%ld rand=%ld gets=%ld close=%ld unlink=%ld closew=%ld closer=%ld getpass=%ld\n",
                 counts[C_OPEN], counts[C_READ], counts[C_WRITE], counts[C_RAND], counts[C_GETS],
                 counts[C_CLOSE], counts[C_UNLINK], counts[C_CLOSEW], counts[C_CLOSER], counts[C_GETPASS]);
    real_write(fd, buf, n);
    real_close(fd);
}

/* ---- random ------------------------------------------------------------- */
static int random_request(void *buf, size_t n)
{
    struct fault *f = next_fault(C_RAND);
    if (f) { errno = EIO; return -1; }
    c19_fill((unsigned char *)buf, n, rseed, (unsigned long long)(counts[C_RAND] - 1));
    return 0;
}

ssize_t getrandom(void *buf, size_t n, unsigned int flags)
{
    static ssize_t (*real)(void *, size_t, unsigned int);
    init();
    if (!have_seed && !getenv("C19_FAULTS")) {
        if (!real) real = (ssize_t (*)(void *, size_t, unsigned int))dlsym(RTLD_NEXT, "getrandom");
        return real(buf, n, flags);
    }
    if (random_request(buf, n) < 0) return -1;
    return (ssize_t)n;
}

int getentropy(void *buf, size_t n)
{
    init();
    return random_request(buf, n);
}

static int is_urandom(int fd)
{
    int i;
    for (i = 0; i < n_urandom; ++i)
        if (urandom_fd[i] == fd) return 1;
    return 0;
}

/* ---- open ---------------------------------------------------------------- */
/* descriptors (also those under FILE streams) that were opened for writing */
static unsigned char wfd[1024];
static void note_fd(int fd, int writing)
{
    if (fd >= 0 && fd < (int)sizeof(wfd)) wfd[fd] = (unsigned char)(writing ? 1 : 0);
}
static int is_wfd(int fd)
{
    return fd >= 0 && fd < (int)sizeof(wfd) && wfd[fd];
}

static int do_open(const char *name, int flags, mode_t mode, const char *sym)
{
    int (*real)(const char *, int, ...) = (int (*)(const char *, int, ...))dlsym(RTLD_NEXT, sym);
    int fd;
    init();
    if (have_seed && (!strcmp(name, "/dev/urandom") || !strcmp(name, "/dev/random"))) {
        fd = real("/dev/null", O_RDONLY);
        if (fd >= 0 && n_urandom < 8) urandom_fd[n_urandom++] = fd;
        return fd;
    }
    if (next_fault(C_OPEN)) { errno = EACCES; return -1; }
    fd = real(name, flags, mode);
    note_fd(fd, (flags & O_ACCMODE) != O_RDONLY);
    return fd;
}

int open(const char *name, int flags, ...)
{
    mode_t mode = 0;
    if (flags & O_CREAT) { va_list ap; va_start(ap, flags); mode = (mode_t)va_arg(ap, int); va_end(ap); }
    return do_open(name, flags, mode, "open");
}

int open64(const char *name, int flags, ...)
{
    mode_t mode = 0;
    if (flags & O_CREAT) { va_list ap; va_start(ap, flags); mode = (mode_t)va_arg(ap, int); va_end(ap); }
    return do_open(name, flags, mode, "open64");
}

int creat(const char *name, mode_t mode)
{
    return do_open(name, O_CREAT | O_WRONLY | O_TRUNC, mode, "open");
}

FILE *fopen(const char *name, const char *mode)
{
    FILE *(*real)(const char *, const char *) = (FILE *(*)(const char *, const char *))dlsym(RTLD_NEXT, "fopen");
    FILE *fp;
    if (next_fault(C_OPEN)) { errno = EACCES; return 0; }
    fp = real(name, mode);
    if (fp) note_fd(fileno(fp), strpbrk(mode, "wa+") != 0);
    return fp;
}

FILE *fopen64(const char *name, const char *mode)
{
    FILE *(*real)(const char *, const char *) = (FILE *(*)(const char *, const char *))dlsym(RTLD_NEXT, "fopen64");
    FILE *fp;
    if (next_fault(C_OPEN)) { errno = EACCES; return 0; }
    fp = real(name, mode);
    if (fp) note_fd(fileno(fp), strpbrk(mode, "wa+") != 0);
    return fp;
}

/* ---- read / write -------------------------------------------------------- */
ssize_t read(int fd, void *buf, size_t len)
{
    static ssize_t (*real)(int, void *, size_t);
    struct fault *f;
    if (!real) real = (ssize_t (*)(int, void *, size_t))dlsym(RTLD_NEXT, "read");
    init();
    if (fd <= 2) return real(fd, buf, len);
    if (is_urandom(fd)) {
        if (random_request(buf, len) < 0) return -1;
        return (ssize_t)len;
    }
    f = next_fault(C_READ);
    if (f && f->kind == K_FAIL) { errno = EIO; return -1; }
    if (f && f->kind == K_EINTR) { errno = EINTR; return -1; }
    if (f && f->kind == K_SHORT && len > (size_t)f->n + 1) len = (size_t)f->n + 1;
    return real(fd, buf, len);
}

ssize_t write(int fd, const void *buf, size_t len)
{
    static ssize_t (*real)(int, const void *, size_t);
    struct fault *f;
    if (!real) real = (ssize_t (*)(int, const void *, size_t))dlsym(RTLD_NEXT, "write");
    init();
    if (fd <= 2) return real(fd, buf, len);
    f = next_fault(C_WRITE);
    if (f && f->kind == K_FAIL) { errno = ENOSPC; return -1; }
    if (f && f->kind == K_EINTR) { errno = EINTR; return -1; }
    if (f && f->kind == K_SHORT && len > (size_t)f->n + 1) len = (size_t)f->n + 1;
    return real(fd, buf, len);
}

/* glibc: the error indicator of a stream is the _IO_ERR_SEEN bit (0x20) of _flags */
static void set_stream_error(FILE *fp)
{
#if defined(__GLIBC__)
    fp->_flags |= 0x20;
#else
#error "set_stream_error: unknown C library"
#endif
}

size_t fread(void *buf, size_t size, size_t nmemb, FILE *fp)
{
    static size_t (*real)(void *, size_t, size_t, FILE *);
    struct fault *f;
    if (!real) real = (size_t (*)(void *, size_t, size_t, FILE *))dlsym(RTLD_NEXT, "fread");
    init();
    if (fp == stdin) return real(buf, size, nmemb, fp);
    f = next_fault(C_READ);
    if (f && f->kind == K_FAIL) { errno = EIO; set_stream_error(fp); return 0; }
    if (f && f->kind == K_SHORT && size == 1) {
        size_t got;
        if (nmemb > (size_t)f->n + 1) nmemb = (size_t)f->n + 1;
        got = real(buf, size, nmemb, fp);
        errno = EIO;
        set_stream_error(fp);
        return got;
    }
    return real(buf, size, nmemb, fp);
}

char *fgets(char *s, int n, FILE *fp)
{
    static char *(*real)(char *, int, FILE *);
    if (!real) real = (char *(*)(char *, int, FILE *))dlsym(RTLD_NEXT, "fgets");
    init();
    if (fp == stdin) return real(s, n, fp);
    if (next_fault(C_GETS)) { errno = EIO; set_stream_error(fp); return 0; }
    return real(s, n, fp);
}

/* ---- close / unlink ------------------------------------------------------- */
int close(int fd)
{
    static int (*real)(int);
    int r;
    if (!real) real = (int (*)(int))dlsym(RTLD_NEXT, "close");
    init();
    if (fd <= 2) return real(fd);
    {
        int w = is_wfd(fd);
        struct fault *f1, *f2;
        note_fd(fd, 0);
        r = real(fd);
        f1 = next_fault(C_CLOSE);
        f2 = next_fault(w ? C_CLOSEW : C_CLOSER);
        if (f1 || f2) { errno = EIO; return -1; }
    }
    return r;
}

int fclose(FILE *fp)
{
    static int (*real)(FILE *);
    int r;
    if (!real) real = (int (*)(FILE *))dlsym(RTLD_NEXT, "fclose");
    init();
    if (fp == stdin || fp == stdout || fp == stderr) return real(fp);
    {
        int fd = fileno(fp);
        int w = is_wfd(fd);
        struct fault *f1, *f2;
        note_fd(fd, 0);
        r = real(fp);
        f1 = next_fault(C_CLOSE);
        f2 = next_fault(w ? C_CLOSEW : C_CLOSER);
        if (f1 || f2) { errno = EIO; return EOF; }
    }
    return r;
}

int unlink(const char *name)
{
    static int (*real)(const char *);
    if (!real) real = (int (*)(const char *))dlsym(RTLD_NEXT, "unlink");
    init();
    ++counts[C_UNLINK];
    return real(name);
}

/* ---- terminal ------------------------------------------------------------- */
int isatty(int fd)
{
    static int (*real)(int);
    const char *t = getenv("C19_TTY");
    if (!real) real = (int (*)(int))dlsym(RTLD_NEXT, "isatty");
    if (t && *t == '1' && (fd == 0 || fd == 1)) return 1;
    return real(fd);
}

static int hexv(int c)
{
    if (c >= '0' && c <= '9') return c - '0';
    if (c >= 'a' && c <= 'f') return c - 'a' + 10;
    if (c >= 'A' && c <= 'F') return c - 'A' + 10;
    return -1;
}

char *getpass(const char *prompt)
{
    static char *(*real)(const char *);
    static char *last;
    const char *s = getenv("C19_GETPASS");
    const char *e;
    long k;
    size_t n, i;
    init();
    if (!s) {
        if (!real) real = (char *(*)(const char *))dlsym(RTLD_NEXT, "getpass");
        return real(prompt);
    }
    k = counts[C_GETPASS]++;
    while (k > 0 && *s) { while (*s && *s != ',') ++s; if (*s == ',') ++s; else break; --k; }
    if (k > 0 || !*s) return 0;
    for (e = s; *e && *e != ','; ++e) ;
    if ((size_t)(e - s) == 4 && !strncmp(s, "NULL", 4)) return 0;
    n = (e - s == 1 && *s == '-') ? 0 : (size_t)(e - s) / 2;
    free(last);                               /* like the C library, one buffer that the next call reuses */
    last = (char *)malloc(n + 1);
    if (!last) return 0;
    for (i = 0; i < n; ++i) last[i] = (char)(hexv(s[2 * i]) * 16 + hexv(s[2 * i + 1]));
    last[n] = 0;
    return last;
}
