/* Lengths of 2^32 bytes and more (thorough tier of C02, C03, C06): the library's length parameters are size_t; nothing
   may process `len mod 2^32`.  No 4 GiB model run is possible, so the oracles are the library's own small-length behaviour
   (which the other streams tie to the proved model) and properties that need no model:
     xof|xofa      one squeeze call of 2^32+48 bytes: bytes [0,80) equal an 80-byte squeeze, the buffer is written to its end,
                   the last 48 bytes equal what chunked squeezing (1 MiB pieces) delivers at that offset;
                   one absorb call of 2^32+5 bytes = the same bytes absorbed in two calls
     siv128        encrypt 2^32+24 zero bytes: no 64-byte run of the ciphertext may be all zero (= unencrypted) at probe offsets
                   spread over the whole length, decrypt returns the plaintext
     isap128a-ad   AD of 2^32+5 bytes: a ciphertext must be rejected when one AD bit at offset 4100, or the last AD byte,
                   is flipped, or the AD is cut to 5 bytes
   Buffers are anonymous mappings (zero pages until touched).  usage: x_huge <test> ; prints OK/FAIL lines, exit 0/1. */
#include <ascon/xof.h>
#include <ascon/siv.h>
#include <ascon/isap.h>
#include <ascon/aead.h>
#include <ascon/prf.h>
#include <ascon/hmac.h>
#include <stdio.h>
#include <stdlib.h>
#include <string.h>
#include <sys/mman.h>

#define BIG ((size_t)1 << 32)
static unsigned char *map(size_t n) {
    void *p = mmap(0, n, PROT_READ | PROT_WRITE, MAP_PRIVATE | MAP_ANONYMOUS | MAP_NORESERVE, -1, 0);
    if (p == MAP_FAILED) { perror("mmap"); exit(2); }
    return (unsigned char *)p;
}
static int fails = 0;
static void verdict(const char *name, int ok, const char *detail) {
    printf("%s %s %s\n", ok ? "OK" : "FAIL", name, detail); fflush(stdout);
    if (!ok) ++fails;
}

#define XOF_TEST(NAME, ST, INIT, ABSORB, SQUEEZE, FREE) \
static void NAME(void) { \
    size_t n = BIG + 48; \
    unsigned char *out = map(n), ref[80], tail[48]; \
    static unsigned char piece[1 << 20]; \
    ST st; size_t done; \
    memset(out + 40, 0xAA, 64); memset(out + n - 48, 0xAA, 48); \
    INIT(&st); ABSORB(&st, (const unsigned char *)"abc", 3); SQUEEZE(&st, out, n); FREE(&st); \
    INIT(&st); ABSORB(&st, (const unsigned char *)"abc", 3); SQUEEZE(&st, ref, 80); FREE(&st); \
    verdict(#NAME "-prefix", memcmp(out, ref, 80) == 0, "bytes [0,80) of a 2^32+48-byte squeeze against an 80-byte squeeze"); \
    INIT(&st); ABSORB(&st, (const unsigned char *)"abc", 3); \
    for (done = 0; done + sizeof(piece) <= BIG; done += sizeof(piece)) SQUEEZE(&st, piece, sizeof(piece)); \
    SQUEEZE(&st, tail, 48); FREE(&st); \
    verdict(#NAME "-tail", memcmp(out + BIG, tail, 48) == 0, "bytes [2^32,2^32+48) of the one-call squeeze against chunked squeezing"); \
    munmap(out, n); \
    { size_t m = BIG + 5; unsigned char *in = map(m), d1[32], d2[32]; \
      in[4100] = 7; in[m - 1] = 9; in[BIG - 1] = 3; \
      INIT(&st); ABSORB(&st, in, m); SQUEEZE(&st, d1, 32); FREE(&st); \
      INIT(&st); ABSORB(&st, in, (size_t)1 << 31); ABSORB(&st, in + ((size_t)1 << 31), m - ((size_t)1 << 31)); SQUEEZE(&st, d2, 32); FREE(&st); \
      verdict(#NAME "-absorb", memcmp(d1, d2, 32) == 0, "one absorb call of 2^32+5 bytes against two calls"); \
      in[m - 1] = 8; INIT(&st); ABSORB(&st, in, m); SQUEEZE(&st, d2, 32); FREE(&st); \
      verdict(#NAME "-absorb-last-byte", memcmp(d1, d2, 32) != 0, "the last of 2^32+5 absorbed bytes influences the digest"); \
      munmap(in, m); } \
}
XOF_TEST(xof, ascon_xof_state_t, ascon_xof_init, ascon_xof_absorb, ascon_xof_squeeze, ascon_xof_free)
XOF_TEST(xofa, ascon_xofa_state_t, ascon_xofa_init, ascon_xofa_absorb, ascon_xofa_squeeze, ascon_xofa_free)

static void siv128(void) {
    size_t n = BIG + 24, clen = 0, mlen = 0, off; int unenc = 0, r;
    unsigned char *buf = map(n + 16), key[16], nonce[16];
    static const unsigned char zero[64] = {0};
    memset(key, 0x11, 16); memset(nonce, 0x22, 16);
    ascon128_siv_encrypt(buf, &clen, buf, n, (const unsigned char *)"ad", 2, nonce, key);       /* in place, plaintext all zero */
    for (off = 4096; off + 64 <= n; off += (size_t)1 << 28)
        if (memcmp(buf + off, zero, 64) == 0) ++unenc;
    if (memcmp(buf + n - 64, zero, 64) == 0) ++unenc;
    verdict("siv128-encrypted-everywhere", clen == n + 16 && unenc == 0, "no all-zero 64-byte run in the ciphertext of 2^32+24 zero bytes");
    r = ascon128_siv_decrypt(buf, &mlen, buf, clen, (const unsigned char *)"ad", 2, nonce, key);
    for (off = 0, unenc = 0; off + 64 <= n; off += (size_t)1 << 27)
        if (memcmp(buf + off, zero, 64) != 0) ++unenc;
    verdict("siv128-roundtrip", r == 0 && mlen == n && unenc == 0, "decryption returns the all-zero plaintext");
    munmap(buf, n + 16);
}

static void isap_ad(void) {
    size_t adlen = BIG + 5, clen = 0, mlen = 0; int r0, r1, r2, r3;
    unsigned char *ad = map(adlen), kb[16], nonce[16], c[8 + 16], m[8];
    ascon128a_isap_aead_key_t pk, *key = &pk;
    memset(kb, 0x33, 16); memset(nonce, 0x44, 16);
    ascon128a_isap_aead_init(&pk, kb);
    ascon128a_isap_aead_encrypt(c, &clen, (const unsigned char *)"payload!", 8, ad, adlen, nonce, key);
    r0 = ascon128a_isap_aead_decrypt(m, &mlen, c, clen, ad, adlen, nonce, key);
    ad[4100] ^= 1; r1 = ascon128a_isap_aead_decrypt(m, &mlen, c, clen, ad, adlen, nonce, key); ad[4100] ^= 1;
    ad[adlen - 1] ^= 1; r2 = ascon128a_isap_aead_decrypt(m, &mlen, c, clen, ad, adlen, nonce, key); ad[adlen - 1] ^= 1;
    r3 = ascon128a_isap_aead_decrypt(m, &mlen, c, clen, ad, 5, nonce, key);
    verdict("isap128a-ad-valid", r0 == 0, "the genuine packet with 2^32+5 bytes of associated data is accepted");
    verdict("isap128a-ad-bit4100", r1 != 0, "a flipped bit in AD[4100] is rejected");
    verdict("isap128a-ad-lastbyte", r2 != 0, "a flipped bit in the last AD byte is rejected");
    verdict("isap128a-ad-cut", r3 != 0, "the AD cut to its length mod 2^32 is rejected");
    ascon128a_isap_aead_free(&pk);
    munmap(ad, adlen);
}

/* ascon128a one-shot over 2^32+24 zero bytes against the incremental API fed 1 MiB at a time (the incremental functions are tied to the
   model by the other streams): same tag, same ciphertext at probe offsets; one-shot decryption accepts and returns zeros */
static void aead128a(void) {
    size_t n = BIG + 24, clen = 0, mlen = 0, off; int bad = 0, r;
    unsigned char *buf = map(n + 16), key[16], nonce[16], tag[16];
    static unsigned char piece[1 << 20], probe[8][64];
    ascon128a_state_t st; size_t done; int pi = 0;
    memset(key, 0x55, 16); memset(nonce, 0x66, 16);
    ascon128a_aead_encrypt(buf, &clen, buf, n, (const unsigned char *)"ad", 2, nonce, key);
    ascon128a_aead_init(&st, nonce, key);
    ascon128a_aead_start(&st, (const unsigned char *)"ad", 2);
    for (done = 0; done < n; ) {
        size_t c = n - done < sizeof(piece) ? n - done : sizeof(piece);
        memset(piece, 0, c);
        ascon128a_aead_encrypt_block(&st, piece, piece, c);
        if ((done & (((size_t)1 << 29) - 1)) == 0 && pi < 8) { memcpy(probe[pi], piece, 64); if (memcmp(buf + done, probe[pi], 64) != 0) ++bad; ++pi; }
        if (done + c == n && memcmp(buf + n - 24, piece + c - 24, 24) != 0) ++bad;
        done += c;
    }
    ascon128a_aead_encrypt_finalize(&st, tag);
    ascon128a_aead_free(&st);
    verdict("aead128a-ciphertext", clen == n + 16 && bad == 0, "one-shot ciphertext of 2^32+24 bytes against the incremental API at probe offsets and at the end");
    verdict("aead128a-tag", memcmp(buf + n, tag, 16) == 0, "one-shot tag against the incremental API");
    r = ascon128a_aead_decrypt(buf, &mlen, buf, clen, (const unsigned char *)"ad", 2, nonce, key);
    for (off = 0, bad = 0; off + 64 <= n; off += (size_t)1 << 27) { static const unsigned char z[64] = {0}; if (memcmp(buf + off, z, 64) != 0) ++bad; }
    verdict("aead128a-roundtrip", r == 0 && mlen == n && bad == 0, "one-shot decryption accepts and returns the all-zero plaintext");
    munmap(buf, n + 16);
    {   /* associated data of 2^32+5 bytes: every part of it must reach the tag */
        size_t adlen = BIG + 5; unsigned char *ad = map(adlen), c0[8 + 16], c1[8 + 16], c2[8 + 16], c3[8 + 16]; size_t l;
        ascon128a_aead_encrypt(c0, &l, (const unsigned char *)"payload!", 8, ad, adlen, nonce, key);
        ad[4100] ^= 1; ascon128a_aead_encrypt(c1, &l, (const unsigned char *)"payload!", 8, ad, adlen, nonce, key); ad[4100] ^= 1;
        ad[adlen - 1] ^= 1; ascon128a_aead_encrypt(c2, &l, (const unsigned char *)"payload!", 8, ad, adlen, nonce, key); ad[adlen - 1] ^= 1;
        ascon128a_aead_encrypt(c3, &l, (const unsigned char *)"payload!", 8, ad, 5, nonce, key);
        verdict("aead128a-ad", memcmp(c0, c1, 24) != 0 && memcmp(c0, c2, 24) != 0 && memcmp(c0, c3, 24) != 0,
                "AD of 2^32+5 bytes: a flipped bit at offset 4100, in the last byte, and the AD cut to 5 bytes each change the result");
        munmap(ad, adlen);
    }
}

/* quick tier of C01: associated data of 2^32+5 zero bytes (no memory is touched for writing) through the one-shot encryption of each
   variant: the result must differ from the one for the first 5 bytes alone (= the length taken modulo 2^32) and from the one with the
   last byte changed */
#define AD_TEST(NAME, LABEL, ENC) \
static void NAME(void) { \
    size_t adlen = BIG + 5, l; unsigned char *ad = map(adlen), key[20], nonce[16], c0[24], c2[24], c3[24]; \
    memset(key, 0x55, 20); memset(nonce, 0x66, 16); \
    ENC(c0, &l, (const unsigned char *)"payload!", 8, ad, adlen, nonce, key); \
    ad[adlen - 1] ^= 1; ENC(c2, &l, (const unsigned char *)"payload!", 8, ad, adlen, nonce, key); ad[adlen - 1] ^= 1; \
    ENC(c3, &l, (const unsigned char *)"payload!", 8, ad, 5, nonce, key); \
    verdict(LABEL "-mod32", memcmp(c0, c3, 24) != 0, "AD of 2^32+5 zero bytes gives a different ciphertext+tag than its first 5 bytes"); \
    verdict(LABEL "-last", memcmp(c0, c2, 24) != 0, "the last of 2^32+5 AD bytes influences the tag"); \
    munmap(ad, adlen); \
}
AD_TEST(ad128, "aead128-ad", ascon128_aead_encrypt)
AD_TEST(ad128a, "aead128a-ad", ascon128a_aead_encrypt)
AD_TEST(ad80pq, "aead80pq-ad", ascon80pq_aead_encrypt)

/* PRF and HMAC: one call over 2^32+5 bytes against the same bytes in two calls; the last byte must matter */
static void prf_hmac(void) {
    size_t m = BIG + 5; unsigned char *in = map(m), key[16], o1[32], o2[32], o3[32];
    ascon_prf_state_t ps; ascon_hmac_state_t hs;
    memset(key, 0x77, 16); in[4100] = 7; in[m - 1] = 9;
    ascon_prf(o1, 32, in, m, key);
    ascon_prf_init(&ps, key); ascon_prf_absorb(&ps, in, (size_t)1 << 31); ascon_prf_absorb(&ps, in + ((size_t)1 << 31), m - ((size_t)1 << 31));
    ascon_prf_squeeze(&ps, o2, 32); ascon_prf_free(&ps);
    in[m - 1] = 8; ascon_prf(o3, 32, in, m, key); in[m - 1] = 9;
    verdict("prf-one-call", memcmp(o1, o2, 32) == 0, "ascon_prf over 2^32+5 bytes against two absorb calls");
    verdict("prf-last-byte", memcmp(o1, o3, 32) != 0, "the last of 2^32+5 bytes influences the PRF output");
    ascon_hmac(o1, key, 16, in, m);
    ascon_hmac_init(&hs, key, 16); ascon_hmac_update(&hs, in, (size_t)1 << 31); ascon_hmac_update(&hs, in + ((size_t)1 << 31), m - ((size_t)1 << 31));
    ascon_hmac_finalize(&hs, key, 16, o2); ascon_hmac_free(&hs);
    in[m - 1] = 8; ascon_hmac(o3, key, 16, in, m);
    verdict("hmac-one-call", memcmp(o1, o2, 32) == 0, "ascon_hmac over 2^32+5 bytes against two update calls");
    verdict("hmac-last-byte", memcmp(o1, o3, 32) != 0, "the last of 2^32+5 bytes influences the HMAC");
    munmap(in, m);
}

int main(int argc, char **argv) {
    const char *t = argc > 1 ? argv[1] : "";
    if (!strcmp(t, "xof")) xof();
    else if (!strcmp(t, "xofa")) xofa();
    else if (!strcmp(t, "siv128")) siv128();
    else if (!strcmp(t, "isap-ad")) isap_ad();
    else if (!strcmp(t, "aead128a")) aead128a();
    else if (!strcmp(t, "ad128")) ad128();
    else if (!strcmp(t, "ad128a")) ad128a();
    else if (!strcmp(t, "ad80pq")) ad80pq();
    else if (!strcmp(t, "prf-hmac")) prf_hmac();
    else { fprintf(stderr, "usage: x_huge xof|xofa|siv128|isap-ad|aead128a|ad128|ad128a|ad80pq|prf-hmac\n"); return 2; }
    return fails ? 1 : 0;
}
