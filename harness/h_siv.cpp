// SIV and ISAP through the C API: one-shot "SIV", "ISAP"; pre-computed ISAP keys "IK".
#include "hx.h"
#include <ascon/siv.h>
#include <ascon/isap.h>

typedef void (*enc_fn)(unsigned char *, size_t *, const unsigned char *, size_t, const unsigned char *, size_t,
                       const unsigned char *, const unsigned char *);
typedef int (*dec_fn)(unsigned char *, size_t *, const unsigned char *, size_t, const unsigned char *, size_t,
                      const unsigned char *, const unsigned char *);

static std::string dec_result(int r, size_t inlen, size_t mlen, size_t mcap, const Buf &m) {
    if (inlen < 16) {
        if (r >= 0) return "SHORT-ACCEPTED";
        if (mlen != (size_t)-7 || !m.untouched()) return "SHORT-WROTE";
        return "SHORT";
    }
    if (mlen != mcap) return "BADMLEN " + std::to_string(mlen);
    return std::to_string(r < 0 ? -1 : r) + " " + m.hx();
}

static std::string op_siv(const Toks &t) {
    const std::string &v = t[1];
    enc_fn enc; dec_fn dec;
    if (v == "128") { enc = ascon128_siv_encrypt; dec = ascon128_siv_decrypt; }
    else if (v == "128a") { enc = ascon128a_siv_encrypt; dec = ascon128a_siv_decrypt; }
    else if (v == "80pq") { enc = ascon80pq_siv_encrypt; dec = ascon80pq_siv_decrypt; }
    else return "UNSUPPORTED";
    Buf k(unhex(t[3])), n(unhex(t[4])), ad(unhex(t[5]), true), in(unhex(t[6]), true);
    if (t[2] == "ENC") {
        Buf c(in.n + 16); size_t clen = (size_t)-7;
        enc(c.p, &clen, in.p, in.n, ad.p, ad.n, n.p, k.p);
        return c.hx() + " " + std::to_string(clen);
    }
    size_t mcap = in.n >= 16 ? in.n - 16 : 0;
    Buf m(mcap); size_t mlen = (size_t)-7;
    int r = dec(m.p, &mlen, in.p, in.n, ad.p, ad.n, n.p, k.p);
    return dec_result(r, in.n, mlen, mcap, m);
}
static Reg r_siv("SIV", op_siv);

struct KObj {
    int v; // 0 = 128a, 1 = 128, 2 = 80pq
    union { ascon128a_isap_aead_key_t a; ascon128_isap_aead_key_t b; ascon80pq_isap_aead_key_t c; } u, snap;
};
static std::map<int, KObj *> ks;
static int kv(const std::string &v) { return v == "128a" ? 0 : v == "128" ? 1 : v == "80pq" ? 2 : -1; }

static void k_init(KObj *o, const unsigned char *k) {
    if (o->v == 0) ascon128a_isap_aead_init(&o->u.a, k); else if (o->v == 1) ascon128_isap_aead_init(&o->u.b, k); else ascon80pq_isap_aead_init(&o->u.c, k);
}
static void k_load(KObj *o, const unsigned char *k) {
    if (o->v == 0) ascon128a_isap_aead_load_key(&o->u.a, k); else if (o->v == 1) ascon128_isap_aead_load_key(&o->u.b, k); else ascon80pq_isap_aead_load_key(&o->u.c, k);
}
static void k_save(KObj *o, unsigned char *k) {
    if (o->v == 0) ascon128a_isap_aead_save_key(&o->u.a, k); else if (o->v == 1) ascon128_isap_aead_save_key(&o->u.b, k); else ascon80pq_isap_aead_save_key(&o->u.c, k);
}
static void k_free(KObj *o) {
    if (o->v == 0) ascon128a_isap_aead_free(&o->u.a); else if (o->v == 1) ascon128_isap_aead_free(&o->u.b); else ascon80pq_isap_aead_free(&o->u.c);
}
static std::string k_enc(KObj *o, const Toks &t, size_t i) {
    Buf n(unhex(t[i])), ad(unhex(t[i + 1]), true), in(unhex(t[i + 2]), true);
    Buf c(in.n + 16); size_t clen = (size_t)-7;
    if (o->v == 0) ascon128a_isap_aead_encrypt(c.p, &clen, in.p, in.n, ad.p, ad.n, n.p, &o->u.a);
    else if (o->v == 1) ascon128_isap_aead_encrypt(c.p, &clen, in.p, in.n, ad.p, ad.n, n.p, &o->u.b);
    else ascon80pq_isap_aead_encrypt(c.p, &clen, in.p, in.n, ad.p, ad.n, n.p, &o->u.c);
    return c.hx() + " " + std::to_string(clen);
}
static std::string k_dec(KObj *o, const Toks &t, size_t i) {
    Buf n(unhex(t[i])), ad(unhex(t[i + 1]), true), in(unhex(t[i + 2]), true);
    size_t mcap = in.n >= 16 ? in.n - 16 : 0;
    Buf m(mcap); size_t mlen = (size_t)-7; int r;
    if (o->v == 0) r = ascon128a_isap_aead_decrypt(m.p, &mlen, in.p, in.n, ad.p, ad.n, n.p, &o->u.a);
    else if (o->v == 1) r = ascon128_isap_aead_decrypt(m.p, &mlen, in.p, in.n, ad.p, ad.n, n.p, &o->u.b);
    else r = ascon80pq_isap_aead_decrypt(m.p, &mlen, in.p, in.n, ad.p, ad.n, n.p, &o->u.c);
    return dec_result(r, in.n, mlen, mcap, m);
}

static std::string op_isap(const Toks &t) {
    KObj o; memset(&o, 0xCD, sizeof(o)); o.v = kv(t[1]);
    if (o.v < 0) return "UNSUPPORTED";
    Buf k(unhex(t[3]));
    k_init(&o, k.p);
    std::string r = t[2] == "ENC" ? k_enc(&o, t, 4) : k_dec(&o, t, 4);
    k_free(&o);
    return r;
}
static Reg r_isap("ISAP", op_isap);

static std::string op_ik(const Toks &t) {
    int slot = atoi(t[1].c_str());
    if (t.size() >= 5 && (t[3] == "INIT" || t[3] == "LOAD")) {
        KObj *o = new KObj; memset(o, 0xCD, sizeof(*o)); o->v = kv(t[2]);
        Buf k(unhex(t[4]));
        if (t[3] == "INIT") k_init(o, k.p); else k_load(o, k.p);
        memcpy(&o->snap, &o->u, sizeof(o->u));
        if (ks.count(slot)) delete ks[slot];
        ks[slot] = o;
        return "OK";
    }
    if (!ks.count(slot)) return "NOSLOT";
    KObj *o = ks[slot];
    const std::string &op = t[2];
    if (op == "SAVE") { Buf out(80); k_save(o, out.p); return out.hx(); }
    if (op == "RELOAD") {
        Buf out(80); k_save(o, out.p);
        KObj *n = new KObj; memset(n, 0xCD, sizeof(*n)); n->v = o->v;
        k_load(n, out.p); memcpy(&n->snap, &n->u, sizeof(n->u));
        int d = atoi(t[3].c_str());
        if (ks.count(d)) delete ks[d];
        ks[d] = n;
        return "OK";
    }
    if (op == "ENC") return k_enc(o, t, 3);
    if (op == "DEC") return k_dec(o, t, 3);
    if (op == "CHK") {   // the raw bytes of the key object must equal the snapshot taken when it was created
        size_t sz = o->v == 0 ? sizeof(o->u.a) : o->v == 1 ? sizeof(o->u.b) : sizeof(o->u.c);
        return memcmp(&o->snap, &o->u, sz) == 0 ? "UNCHANGED" : "CHANGED";
    }
    if (op == "FREE") { k_free(o); delete o; ks.erase(slot); return "OK"; }
    return "UNSUPPORTED";
}
static Reg r_ik("IK", op_ik);
