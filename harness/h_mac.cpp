// PRF / MAC / HMAC / KMAC / KDF / HKDF / PBKDF2 through the C API.
#include "hx.h"
#include <ascon/prf.h>
#include <ascon/hmac.h>
#include <ascon/kmac.h>
#include <ascon/kdf.h>
#include <ascon/hkdf.h>
#include <ascon/pbkdf2.h>

static std::vector<std::vector<unsigned char> > chunks_of(const std::string &s) {
    std::vector<std::vector<unsigned char> > r;
    if (s.empty()) return r;
    size_t i = 0;
    while (i <= s.size()) { size_t j = s.find(',', i); if (j == std::string::npos) j = s.size(); r.push_back(unhex(s.substr(i, j - i))); i = j + 1; }
    return r;
}
static std::vector<size_t> ints_of(const std::string &s) {
    std::vector<size_t> r;
    if (s == "-") return r;
    size_t i = 0;
    while (i <= s.size()) { size_t j = s.find(',', i); if (j == std::string::npos) j = s.size(); r.push_back((size_t)strtoull(s.substr(i, j - i).c_str(), 0, 10)); i = j + 1; }
    return r;
}

static std::string op_prf(const Toks &t) {
    Buf k(unhex(t[1])), m(unhex(t[3]), true);
    size_t L = (size_t)strtoull(t[2].c_str(), 0, 10), n = (size_t)atoi(t[4].c_str());
    Buf out(n);
    if (L == 0) ascon_prf(out.p, n, m.p, m.n, k.p);
    else if (L == n) ascon_prf_fixed(out.p, n, m.p, m.n, k.p);
    else { ascon_prf_state_t st; ascon_prf_fixed_init(&st, k.p, L); ascon_prf_absorb(&st, m.p, m.n); ascon_prf_squeeze(&st, out.p, n); ascon_prf_free(&st); }
    return out.hx();
}
static Reg r_prf("PRF", op_prf);
static std::string op_mac(const Toks &t) {
    Buf k(unhex(t[1])), m(unhex(t[2]), true), tag(16);
    ascon_mac(tag.p, m.p, m.n, k.p);
    return tag.hx();
}
static Reg r_mac("MAC", op_mac);
static std::string op_macv(const Toks &t) {
    Buf tag(unhex(t[1])), k(unhex(t[2])), m(unhex(t[3]), true);
    int r = ascon_mac_verify(tag.p, m.p, m.n, k.p);
    return std::to_string(r < 0 ? -1 : r);
}
static Reg r_macv("MACV", op_macv);
static std::string op_prfs(const Toks &t) {
    Buf k(unhex(t[1])), m(unhex(t[2]), true);
    size_t n = (size_t)atoi(t[3].c_str());
    Buf out(n);
    int r = ascon_prf_short(out.p, n, m.p, m.n, k.p);
    if (r < 0) return out.untouched() ? "ERR" : "ERR-WROTE";
    return out.hx();
}
static Reg r_prfs("PRFS", op_prfs);

// PRFSL <key> <in> <declared inlen> <declared outlen>: lengths beyond 16 (up to SIZE_MAX) must be refused (-1) before anything is touched
static std::string op_prfsl(const Toks &t) {
    Buf k(unhex(t[1])), m(unhex(t[2]), true);
    size_t inlen = (size_t)strtoull(t[3].c_str(), 0, 10), n = (size_t)strtoull(t[4].c_str(), 0, 10);
    Buf out(n <= 16 ? n : 16);
    int r = ascon_prf_short(out.p, n, m.p, inlen, k.p);
    if (r < 0) return out.untouched() ? "ERR" : "ERR-WROTE";
    return std::string("ACCEPTED ") + out.hx();
}
static Reg r_prfsl("PRFSL", op_prfsl);

// RE:<seed> as the last token: reach the operation through <op>_reinit after a prior history on the same object
static bool re_token(const Toks &t, unsigned &seed) {
    const std::string &l = t[t.size() - 1];
    if (l.size() > 3 && l.compare(0, 3, "RE:") == 0) { seed = (unsigned)strtoul(l.c_str() + 3, 0, 10); return true; }
    return false;
}
static std::vector<unsigned char> junk(unsigned &seed, size_t n) {
    std::vector<unsigned char> v(n);
    for (size_t i = 0; i < n; ++i) { seed = seed * 1103515245u + 12345u; v[i] = (unsigned char)(seed >> 16); }
    return v;
}

// trailing "AK": the output buffer is the key buffer (out == key, as in a ratchet ck = HMAC(ck, data)); nothing in the
// headers forbids it and the result must still be HMAC(key, message)
static std::string op_hm_alias(const Toks &t) {
    bool a = t[1] == "hmaca";
    std::vector<unsigned char> kv = unhex(t[2]);
    Buf w(kv.size() > 32 ? kv.size() : 32);
    if (kv.size()) memcpy(w.p, kv.data(), kv.size());
    if (t[0] == "HMO") {
        Buf m(unhex(t[3]), true);
        if (a) ascon_hmaca(w.p, w.p, kv.size(), m.p, m.n); else ascon_hmac(w.p, w.p, kv.size(), m.p, m.n);
    } else {
        std::vector<std::vector<unsigned char> > cs = chunks_of(t.size() > 3 ? t[3] : "");
        if (a) { ascon_hmaca_state_t st; ascon_hmaca_init(&st, w.p, kv.size());
            for (size_t i = 0; i < cs.size(); ++i) { Buf c(cs[i], true); ascon_hmaca_update(&st, c.p, c.n); }
            ascon_hmaca_finalize(&st, w.p, kv.size(), w.p); ascon_hmaca_free(&st); }
        else { ascon_hmac_state_t st; ascon_hmac_init(&st, w.p, kv.size());
            for (size_t i = 0; i < cs.size(); ++i) { Buf c(cs[i], true); ascon_hmac_update(&st, c.p, c.n); }
            ascon_hmac_finalize(&st, w.p, kv.size(), w.p); ascon_hmac_free(&st); }
    }
    return hex(w.p, 32);
}

static std::string op_hm(const Toks &t0) {
    Toks t = t0;
    if (t.size() > 3 && t[t.size() - 1] == "AK") { t.pop_back(); return op_hm_alias(t); }
    bool a = t[1] == "hmaca";
    Buf k(unhex(t[2]), true), out(32);
    if (t[0] == "HMO") {
        Buf m(unhex(t[3]), true);
        if (a) ascon_hmaca(out.p, k.p, k.n, m.p, m.n); else ascon_hmac(out.p, k.p, k.n, m.p, m.n);
        return out.hx();
    }
    unsigned seed = 0; bool re = re_token(t, seed);
    std::vector<std::vector<unsigned char> > cs = chunks_of(t.size() > 3 ? t[3] : "");
    if (re) {
        std::vector<unsigned char> k0 = junk(seed, 1 + seed % 70), m0 = junk(seed, seed % 50);
        unsigned char d0[32];
        if (a) { ascon_hmaca_state_t st; ascon_hmaca_init(&st, k0.data(), k0.size()); ascon_hmaca_update(&st, m0.data(), m0.size());
            if (seed & 1) ascon_hmaca_finalize(&st, k0.data(), k0.size(), d0);
            ascon_hmaca_reinit(&st, k.p, k.n);
            for (size_t i = 0; i < cs.size(); ++i) { Buf c(cs[i], true); ascon_hmaca_update(&st, c.p, c.n); }
            ascon_hmaca_finalize(&st, k.p, k.n, out.p); ascon_hmaca_free(&st); }
        else { ascon_hmac_state_t st; ascon_hmac_init(&st, k0.data(), k0.size()); ascon_hmac_update(&st, m0.data(), m0.size());
            if (seed & 1) ascon_hmac_finalize(&st, k0.data(), k0.size(), d0);
            ascon_hmac_reinit(&st, k.p, k.n);
            for (size_t i = 0; i < cs.size(); ++i) { Buf c(cs[i], true); ascon_hmac_update(&st, c.p, c.n); }
            ascon_hmac_finalize(&st, k.p, k.n, out.p); ascon_hmac_free(&st); }
        return out.hx();
    }
    if (a) { ascon_hmaca_state_t st; ascon_hmaca_init(&st, k.p, k.n);
        for (size_t i = 0; i < cs.size(); ++i) { Buf c(cs[i], true); ascon_hmaca_update(&st, c.p, c.n); }
        ascon_hmaca_finalize(&st, k.p, k.n, out.p); ascon_hmaca_free(&st); }
    else { ascon_hmac_state_t st; ascon_hmac_init(&st, k.p, k.n);
        for (size_t i = 0; i < cs.size(); ++i) { Buf c(cs[i], true); ascon_hmac_update(&st, c.p, c.n); }
        ascon_hmac_finalize(&st, k.p, k.n, out.p); ascon_hmac_free(&st); }
    return out.hx();
}
static Reg r_hm("HM", op_hm), r_hmo("HMO", op_hm);

static std::string join(const std::vector<std::string> &v) { std::string s; for (size_t i = 0; i < v.size(); ++i) { if (i) s += ","; s += v[i]; } return s; }

static std::string op_km(const Toks &t) {
    bool a = t[1] == "kmaca";
    if (t[0] == "KMO") {
        Buf k(unhex(t[2]), true), m(unhex(t[3]), true), cu(unhex(t[4]), true);
        size_t n = (size_t)atoi(t[5].c_str());
        Buf out(n);
        if (a) ascon_kmaca(k.p, k.n, m.p, m.n, cu.p, cu.n, out.p, n); else ascon_kmac(k.p, k.n, m.p, m.n, cu.p, cu.n, out.p, n);
        return out.hx();
    }
    Buf k(unhex(t[2]), true), cu(unhex(t[3]), true);
    size_t L = (size_t)strtoull(t[4].c_str(), 0, 10);
    std::vector<std::vector<unsigned char> > cs = chunks_of(t[5] == "-" ? "" : t[5]);
    std::vector<size_t> outs = ints_of(t[6]);
    std::vector<std::string> res;
    unsigned seed = 0; bool re = re_token(t, seed);
    if (re) {
        std::vector<unsigned char> k0 = junk(seed, 1 + seed % 40), c0 = junk(seed, seed % 20), m0 = junk(seed, seed % 50);
        unsigned char d0[16];
        if (a) { ascon_kmaca_state_t st; ascon_kmaca_init(&st, k0.data(), k0.size(), c0.data(), c0.size(), seed % 3 ? 0 : 16);
            ascon_kmaca_absorb(&st, m0.data(), m0.size()); if (seed & 1) ascon_kmaca_squeeze(&st, d0, 16);
            ascon_kmaca_reinit(&st, k.p, k.n, cu.p, cu.n, L);
            for (size_t i = 0; i < cs.size(); ++i) { Buf c(cs[i], true); ascon_kmaca_absorb(&st, c.p, c.n); }
            for (size_t i = 0; i < outs.size(); ++i) { Buf o(outs[i]); ascon_kmaca_squeeze(&st, o.p, o.n); res.push_back(o.hx()); }
            ascon_kmaca_free(&st); }
        else { ascon_kmac_state_t st; ascon_kmac_init(&st, k0.data(), k0.size(), c0.data(), c0.size(), seed % 3 ? 0 : 16);
            ascon_kmac_absorb(&st, m0.data(), m0.size()); if (seed & 1) ascon_kmac_squeeze(&st, d0, 16);
            ascon_kmac_reinit(&st, k.p, k.n, cu.p, cu.n, L);
            for (size_t i = 0; i < cs.size(); ++i) { Buf c(cs[i], true); ascon_kmac_absorb(&st, c.p, c.n); }
            for (size_t i = 0; i < outs.size(); ++i) { Buf o(outs[i]); ascon_kmac_squeeze(&st, o.p, o.n); res.push_back(o.hx()); }
            ascon_kmac_free(&st); }
        return join(res);
    }
    if (a) { ascon_kmaca_state_t st; ascon_kmaca_init(&st, k.p, k.n, cu.p, cu.n, L);
        for (size_t i = 0; i < cs.size(); ++i) { Buf c(cs[i], true); ascon_kmaca_absorb(&st, c.p, c.n); }
        for (size_t i = 0; i < outs.size(); ++i) { Buf o(outs[i]); ascon_kmaca_squeeze(&st, o.p, o.n); res.push_back(o.hx()); }
        ascon_kmaca_free(&st); }
    else { ascon_kmac_state_t st; ascon_kmac_init(&st, k.p, k.n, cu.p, cu.n, L);
        for (size_t i = 0; i < cs.size(); ++i) { Buf c(cs[i], true); ascon_kmac_absorb(&st, c.p, c.n); }
        for (size_t i = 0; i < outs.size(); ++i) { Buf o(outs[i]); ascon_kmac_squeeze(&st, o.p, o.n); res.push_back(o.hx()); }
        ascon_kmac_free(&st); }
    return join(res);
}
static Reg r_km("KM", op_km), r_kmo("KMO", op_km);

static std::string op_kd(const Toks &t) {
    bool a = t[1] == "kdfa";
    Buf k(unhex(t[2]), true), cu(unhex(t[3]), true);
    if (t[0] == "KDO") {
        size_t n = (size_t)atoi(t[4].c_str());
        Buf out(n);
        if (a) ascon_kdfa(out.p, n, k.p, k.n, cu.p, cu.n); else ascon_kdf(out.p, n, k.p, k.n, cu.p, cu.n);
        return out.hx();
    }
    size_t L = (size_t)strtoull(t[4].c_str(), 0, 10);
    std::vector<size_t> outs = ints_of(t[5]);
    std::vector<std::string> res;
    unsigned seed = 0; bool re = re_token(t, seed);
    if (re) {
        std::vector<unsigned char> k0 = junk(seed, 1 + seed % 40), c0 = junk(seed, seed % 20);
        unsigned char d0[24];
        if (a) { ascon_kdfa_state_t st; ascon_kdfa_init(&st, k0.data(), k0.size(), c0.data(), c0.size(), seed % 3 ? 0 : 24);
            if (seed & 1) ascon_kdfa_squeeze(&st, d0, 24);
            ascon_kdfa_reinit(&st, k.p, k.n, cu.p, cu.n, L);
            for (size_t i = 0; i < outs.size(); ++i) { Buf o(outs[i]); ascon_kdfa_squeeze(&st, o.p, o.n); res.push_back(o.hx()); }
            ascon_kdfa_free(&st); }
        else { ascon_kdf_state_t st; ascon_kdf_init(&st, k0.data(), k0.size(), c0.data(), c0.size(), seed % 3 ? 0 : 24);
            if (seed & 1) ascon_kdf_squeeze(&st, d0, 24);
            ascon_kdf_reinit(&st, k.p, k.n, cu.p, cu.n, L);
            for (size_t i = 0; i < outs.size(); ++i) { Buf o(outs[i]); ascon_kdf_squeeze(&st, o.p, o.n); res.push_back(o.hx()); }
            ascon_kdf_free(&st); }
        return join(res);
    }
    if (a) { ascon_kdfa_state_t st; ascon_kdfa_init(&st, k.p, k.n, cu.p, cu.n, L);
        for (size_t i = 0; i < outs.size(); ++i) { Buf o(outs[i]); ascon_kdfa_squeeze(&st, o.p, o.n); res.push_back(o.hx()); }
        ascon_kdfa_free(&st); }
    else { ascon_kdf_state_t st; ascon_kdf_init(&st, k.p, k.n, cu.p, cu.n, L);
        for (size_t i = 0; i < outs.size(); ++i) { Buf o(outs[i]); ascon_kdf_squeeze(&st, o.p, o.n); res.push_back(o.hx()); }
        ascon_kdf_free(&st); }
    return join(res);
}
static Reg r_kd("KD", op_kd), r_kdo("KDO", op_kd);

static std::string op_hk(const Toks &t) {
    bool a = t[1] == "hkdfa";
    Buf key(unhex(t[2]), true), salt(unhex(t[3]), true), info(unhex(t[4]), true);
    if (t[0] == "HKO") {
        size_t n = (size_t)atoi(t[5].c_str());
        Buf out(n);
        int r = a ? ascon_hkdfa(out.p, n, key.p, key.n, salt.p, salt.n, info.p, info.n) : ascon_hkdf(out.p, n, key.p, key.n, salt.p, salt.n, info.p, info.n);
        if (r < 0) return out.untouched() ? "ERR" : "ERR-WROTE";
        return out.hx();
    }
    std::vector<size_t> reqs = ints_of(t[5]);
    std::vector<std::string> res;
    ascon_hkdf_state_t st; ascon_hkdfa_state_t sta;
    if (a) ascon_hkdfa_extract(&sta, key.p, key.n, salt.p, salt.n); else ascon_hkdf_extract(&st, key.p, key.n, salt.p, salt.n);
    for (size_t i = 0; i < reqs.size(); ++i) {
        Buf o(reqs[i]);
        int r = a ? ascon_hkdfa_expand(&sta, info.p, info.n, o.p, o.n) : ascon_hkdf_expand(&st, info.p, info.n, o.p, o.n);
        res.push_back(std::to_string(r < 0 ? -1 : r) + ":" + o.hx());
    }
    if (a) ascon_hkdfa_free(&sta); else ascon_hkdf_free(&st);
    return join(res);
}
static Reg r_hk("HK", op_hk), r_hko("HKO", op_hk);

static std::string op_pb(const Toks &t) {
    Buf pw(unhex(t[2]), true), salt(unhex(t[3]), true);
    unsigned long c = strtoul(t[4].c_str(), 0, 10);
    size_t n = (size_t)atoi(t[5].c_str());
    Buf out(n);
    if (t[1] == "xof") ascon_pbkdf2(out.p, n, pw.p, pw.n, salt.p, salt.n, c);
    else ascon_pbkdf2_hmac(out.p, n, pw.p, pw.n, salt.p, salt.n, c);
    return out.hx();
}
static Reg r_pb("PB", op_pb);

// PBT <xof|hmac> <pw> <salt> <count> <n> <ms>: the same call in a child process that is given <ms> milliseconds.
// "TIMEOUT" when it is still iterating then, "DONE <hex>" when it returned.  Used with iteration counts of 2^32 and more, which
// no machine completes in that time (>= 2^33 permutation calls): returning early means the count was not honoured.
#include <unistd.h>
#include <signal.h>
#include <poll.h>
#include <sys/wait.h>
static std::string op_pbt(const Toks &t) {
    Buf pw(unhex(t[2]), true), salt(unhex(t[3]), true);
    unsigned long long c = strtoull(t[4].c_str(), 0, 10);
    if (c > (unsigned long long)(unsigned long)-1) return "TIMEOUT";       // not representable in the parameter type on this target
    size_t n = (size_t)atoi(t[5].c_str());
    int ms = atoi(t[6].c_str());
    int fd[2];
    if (pipe(fd) != 0) return "INFRA-pipe";
    pid_t pid = fork();
    if (pid < 0) return "INFRA-fork";
    if (pid == 0) {
        close(fd[0]);
        Buf out(n);
        if (t[1] == "xof") ascon_pbkdf2(out.p, n, pw.p, pw.n, salt.p, salt.n, (unsigned long)c);
        else ascon_pbkdf2_hmac(out.p, n, pw.p, pw.n, salt.p, salt.n, (unsigned long)c);
        std::string h = out.hx();
        ssize_t w = write(fd[1], h.data(), h.size()); (void)w;
        _exit(0);
    }
    close(fd[1]);
    struct pollfd pf; pf.fd = fd[0]; pf.events = POLLIN; pf.revents = 0;
    std::string got; bool done = false;
    if (poll(&pf, 1, ms) > 0) {
        char buf[4096]; ssize_t r;
        while ((r = read(fd[0], buf, sizeof(buf))) > 0) got.append(buf, (size_t)r);
        done = true;
    }
    close(fd[0]);
    kill(pid, SIGKILL);
    int st; waitpid(pid, &st, 0);
    return done ? "DONE " + got : "TIMEOUT";
}
static Reg r_pbt("PBT", op_pbt);
