// Correspondence harness: same line protocol as ocaml/driver.ml, executed
// against the library built from /repo's working tree.
#include "hx.h"
#include <iostream>
#include <sstream>

bool g_canary_failed = false;
bool g_exact = false;
unsigned g_misalign = 0;
static std::map<std::string, Handler> &handlers() { static std::map<std::string, Handler> m; return m; }
void register_handler(const char *name, Handler h) { handlers()[name] = h; }

int main() {
    const char *e = getenv("VERIF_EXACT");
    g_exact = e && *e == '1';
    const char *ma = getenv("VERIF_MISALIGN");
    g_misalign = ma ? (unsigned)atoi(ma) & 15u : 0;
    std::string line;
    while (std::getline(std::cin, line)) {
        if (line.empty() || line[0] == '#') continue;
        std::istringstream is(line);
        Toks t; std::string w;
        while (is >> w) t.push_back(w);
        if (t.empty()) continue;
        std::string r;
        std::map<std::string, Handler>::iterator it = handlers().find(t[0]);
        if (it == handlers().end()) r = "UNSUPPORTED";
        else {
            try { r = it->second(t); }
            catch (std::exception &ex) { r = std::string("ERR ") + ex.what(); }
        }
        if (g_canary_failed) { r += " CANARY"; g_canary_failed = false; }
        std::cout << r << "\n" << std::flush;
    }
    return 0;
}
