// C11, layer 3 - stand-alone program (not part of verif_harness): the keyed
// primitives of the library exactly as shipped (Release -O3
// libascon_static.a built from /repo's working tree) run under
//     valgrind --tool=memcheck
// with every SECRET byte marked undefined (VALGRIND_MAKE_MEM_UNDEFINED):
// keys, plaintext, expanded ISAP keys, masked-key shares, passwords, PRNG
// seeds and fed entropy, and every byte the system random source returns
// (ascon_trng_generate is substituted at link time by the one below; the
// library's mixer that turns the seed into masking words is the shipped one).
// Memcheck then reports every conditional jump ("Conditional jump or move
// depends on uninitialised value(s)") and every address ("Use of
// uninitialised value of size 8") computed from secret data.  Outputs are
// re-marked defined after the call, and so is the accept/reject result before
// the harness looks at it - they are public by the property's definition.
// Taint is value-independent, so the lines enumerate PUBLIC SHAPES.
//
// stdin: one operation per line (see run_line); stdout: one line per
// operation  "R <errors-reported-during-the-operation> <result> <fnv of outputs> t=<tainted output bytes>  <line>"
// (t counts the output bytes whose V-bits were still undefined when published: > 0 shows that the secret marking
// really flowed through the library into the outputs, i.e. the operation was observed with its secrets poisoned).
// The number of errors is VALGRIND_COUNT_ERRORS after minus before (0 when not
// running under valgrind; "CANARY" lines make a deliberate secret-dependent
// branch / table lookup IN THE HARNESS and must be reported, so that a broken
// valgrind set-up cannot pass silently).  The valgrind log gets a "CTOP <line>"
// marker before each operation (VALGRIND_PRINTF) so that stacks are attributed.
#include <string>
#include <vector>
#include <iostream>
#include <sstream>
#include <cstdio>
#include <cstdlib>
#include <cstring>
#include <cstdint>
#include <valgrind/memcheck.h>
#include <ascon/aead.h>
#include <ascon/aead-masked.h>
#include <ascon/siv.h>
#include <ascon/isap.h>
#include <ascon/xof.h>
#include <ascon/hash.h>
#include <ascon/prf.h>
#include <ascon/hmac.h>
#include <ascon/kmac.h>
#include <ascon/kdf.h>
#include <ascon/hkdf.h>
#include <ascon/pbkdf2.h>
#include <ascon/random.h>
#include <ascon/masking.h>
#include <ascon/storage.h>
#include <ascon/utility.h>
extern "C" {
#include "random/ascon-trng.h"
}

typedef std::vector<unsigned char> Bytes;

// ---- deterministic filler ---------------------------------------------------
static uint64_t g_x = 0x9E3779B97F4A7C15ULL;
static uint64_t nextw() { g_x ^= g_x << 13; g_x ^= g_x >> 7; g_x ^= g_x << 17; return g_x; }
static Bytes fill(size_t n) { Bytes b(n + 1); for (size_t i = 0; i < n; ++i) b[i] = (unsigned char)(nextw() >> 23); b.resize(n + 1); return b; }
// (buffers have one spare byte so that data() is never a zero-size allocation)

static void secret(void *p, size_t n) { if (n) (void)VALGRIND_MAKE_MEM_UNDEFINED(p, n); }
static void pub(void *p, size_t n) { if (n) (void)VALGRIND_MAKE_MEM_DEFINED(p, n); }
static Bytes sec(size_t n) { Bytes b = fill(n); secret(b.data(), n); return b; }

static uint64_t g_fnv = 1469598103934665603ULL;
static unsigned long g_tainted = 0;              // output bytes that still carried secret taint when they were published
static void out(const void *p, size_t n) {       // publish an output: defined from here on, folded into the digest
    if (n) { std::vector<unsigned char> vb(n); if (VALGRIND_GET_VBITS(p, vb.data(), n) == 1) for (size_t i = 0; i < n; ++i) if (vb[i]) ++g_tainted; }
    pub(const_cast<void *>(p), n);
    const unsigned char *q = (const unsigned char *)p;
    for (size_t i = 0; i < n; ++i) { g_fnv ^= q[i]; g_fnv *= 1099511628211ULL; }
}
static int result(int r) { out(&r, sizeof(r)); return r; }     // the accept/reject (or status) value becomes public here

// ---- link-time substitute of the SYSTEM random source: everything it returns is secret.
// The library's own whitening layer (src/random/ascon-trng-mixer.c: ascon_trng_init / generate_32 / generate_64 /
// reseed, the functions the masked code calls) is the shipped one, pulled from the archive: its state is seeded from
// these secret bytes, so every masking word is secret-derived.  With -DCT_SUBSTITUTE_MIXER the mixer is replaced too
// (each word returned is directly marked secret).
static unsigned long g_trng_words = 0;
extern "C" int ascon_trng_generate(unsigned char *o, size_t n) {
    for (size_t i = 0; i < n; ++i) o[i] = (unsigned char)(nextw() >> 11);
    secret(o, n); ++g_trng_words; return 1;
}
#if defined(CT_SUBSTITUTE_MIXER)
extern "C" int ascon_trng_init(ascon_trng_state_t *s) { memset(s, 0, sizeof(*s)); return 1; }
extern "C" void ascon_trng_free(ascon_trng_state_t *s) { (void)s; }
extern "C" uint32_t ascon_trng_generate_32(ascon_trng_state_t *s) { (void)s; uint32_t v = (uint32_t)nextw(); secret(&v, sizeof(v)); ++g_trng_words; return v; }
extern "C" uint64_t ascon_trng_generate_64(ascon_trng_state_t *s) { (void)s; uint64_t v = nextw(); secret(&v, sizeof(v)); ++g_trng_words; return v; }
extern "C" int ascon_trng_reseed(ascon_trng_state_t *s) { (void)s; return 1; }
#endif

// ---- helpers ------------------------------------------------------------------
static std::vector<std::string> split(const std::string &s, char c) {
    std::vector<std::string> v; std::string cur; std::istringstream is(s);
    while (std::getline(is, cur, c)) v.push_back(cur);
    return v;
}
static std::vector<size_t> nums(const std::string &s) {
    std::vector<size_t> v; if (s == "-") return v;
    std::vector<std::string> p = split(s, ','); for (size_t i = 0; i < p.size(); ++i) v.push_back(strtoul(p[i].c_str(), 0, 10));
    return v;
}
static size_t sum(const std::vector<size_t> &v) { size_t s = 0; for (size_t i = 0; i < v.size(); ++i) s += v[i]; return s; }
// tag handling for verification: "ok" keeps it, "b<k>" flips one bit of byte k of the tag (the tag is public input)
static void damage(unsigned char *tag, const std::string &how) { if (how != "ok") tag[atoi(how.c_str() + 1)] ^= 0x10; }

// deliberately NOT constant time: the canaries
static volatile unsigned g_sink;
static const unsigned char g_table[256] = {1, 2, 3};
static void canary_branch() { Bytes k = sec(16); if (k[3] == 0x42) g_sink = g_sink + 1; else g_sink = g_sink + 2; }
static void canary_addr() { Bytes k = sec(16); unsigned v = g_table[k[5]]; pub(&v, sizeof(v)); g_sink = v; }
static void canary_memcmp() {      // an early-exit comparison of a secret-derived tag
    Bytes a = sec(16), b = fill(16); int r = 0;
    for (int i = 0; i < 16; ++i) if (a[i] != b[i]) { r = -1; break; }
    g_sink = (unsigned)result(r);
}

// ---- one-shot AEAD-shaped functions ---------------------------------------------
typedef void (*enc_fn)(unsigned char *, size_t *, const unsigned char *, size_t, const unsigned char *, size_t, const unsigned char *, const unsigned char *);
typedef int (*dec_fn)(unsigned char *, size_t *, const unsigned char *, size_t, const unsigned char *, size_t, const unsigned char *, const unsigned char *);

// `key` is whatever the function takes as its last argument (raw key bytes, an expanded ISAP key, a masked key);
// it is already marked secret by the caller and `keycopy` is a fully defined copy used to prepare valid ciphertexts.
static int aead_case(enc_fn E, dec_fn D, const void *key, const void *keycopy, const std::string &dir, size_t adlen, size_t mlen, const std::string &tagmode, bool inplace) {
    Bytes ad = fill(adlen), npub = fill(16);
    if (dir == "ENC") {
        Bytes m = sec(mlen), c(mlen + 17); size_t clen = 0;
        if (inplace) { memcpy(c.data(), m.data(), mlen); secret(c.data(), mlen); E(c.data(), &clen, c.data(), mlen, ad.data(), adlen, npub.data(), (const unsigned char *)key); }
        else E(c.data(), &clen, m.data(), mlen, ad.data(), adlen, npub.data(), (const unsigned char *)key);
        out(&clen, sizeof(clen)); out(c.data(), mlen + 16);
        return 0;
    }
    // DEC: a valid ciphertext made with defined data, then the public ciphertext possibly damaged
    Bytes m0 = fill(mlen), c(mlen + 17), m(mlen + 1); size_t clen = 0, mlen2 = 0;
    E(c.data(), &clen, m0.data(), mlen, ad.data(), adlen, npub.data(), (const unsigned char *)keycopy);
    pub(c.data(), mlen + 16);        // (the masked variants consume secret randomness: the ciphertext is public all the same)
    damage(c.data() + mlen, tagmode);
    int r;
    if (inplace) r = D(c.data(), &mlen2, c.data(), mlen + 16, ad.data(), adlen, npub.data(), (const unsigned char *)key);
    else r = D(m.data(), &mlen2, c.data(), mlen + 16, ad.data(), adlen, npub.data(), (const unsigned char *)key);
    r = result(r);
    out(&mlen2, sizeof(mlen2)); out(inplace ? c.data() : m.data(), mlen);
    if ((tagmode == "ok") != (r == 0)) { printf("# unexpected verification result %d for %s\n", r, tagmode.c_str()); return 100; }
    return r;
}

#define ENC(f) ((enc_fn)(void (*)(void))f)
#define DEC(f) ((dec_fn)(void (*)(void))f)

static int op_aead(const std::vector<std::string> &t) {      // AEAD|SIV|ISAP|MASKED <alg> ENC|DEC <adlen> <mlen> <tagmode> [inplace]
    const std::string &fam = t[0], &alg = t[1], &dir = t[2];
    size_t adlen = strtoul(t[3].c_str(), 0, 10), mlen = strtoul(t[4].c_str(), 0, 10);
    std::string tagmode = t.size() > 5 ? t[5] : "ok";
    bool inplace = t.size() > 6 && t[6] == "inplace";
    size_t klen = alg == "80pq" ? 20 : 16;
    Bytes kc = fill(klen), k = kc; secret(k.data(), klen);
    if (fam == "AEAD") {
        if (alg == "128") return aead_case(ascon128_aead_encrypt, ascon128_aead_decrypt, k.data(), kc.data(), dir, adlen, mlen, tagmode, inplace);
        if (alg == "128a") return aead_case(ascon128a_aead_encrypt, ascon128a_aead_decrypt, k.data(), kc.data(), dir, adlen, mlen, tagmode, inplace);
        return aead_case(ascon80pq_aead_encrypt, ascon80pq_aead_decrypt, k.data(), kc.data(), dir, adlen, mlen, tagmode, inplace);
    }
    if (fam == "SIV") {
        if (alg == "128") return aead_case(ascon128_siv_encrypt, ascon128_siv_decrypt, k.data(), kc.data(), dir, adlen, mlen, tagmode, inplace);
        if (alg == "128a") return aead_case(ascon128a_siv_encrypt, ascon128a_siv_decrypt, k.data(), kc.data(), dir, adlen, mlen, tagmode, inplace);
        return aead_case(ascon80pq_siv_encrypt, ascon80pq_siv_decrypt, k.data(), kc.data(), dir, adlen, mlen, tagmode, inplace);
    }
    if (fam == "ISAP") {       // the key expansion itself runs on the secret key; the expanded key is secret
        int r;
        if (alg == "128") { ascon128_isap_aead_key_t pk, pc; ascon128_isap_aead_init(&pk, k.data()); ascon128_isap_aead_init(&pc, kc.data());
            r = aead_case(ENC(ascon128_isap_aead_encrypt), DEC(ascon128_isap_aead_decrypt), &pk, &pc, dir, adlen, mlen, tagmode, inplace);
            ascon128_isap_aead_free(&pk); ascon128_isap_aead_free(&pc); }
        else if (alg == "128a") { ascon128a_isap_aead_key_t pk, pc; ascon128a_isap_aead_init(&pk, k.data()); ascon128a_isap_aead_init(&pc, kc.data());
            r = aead_case(ENC(ascon128a_isap_aead_encrypt), DEC(ascon128a_isap_aead_decrypt), &pk, &pc, dir, adlen, mlen, tagmode, inplace);
            ascon128a_isap_aead_free(&pk); ascon128a_isap_aead_free(&pc); }
        else { ascon80pq_isap_aead_key_t pk, pc; ascon80pq_isap_aead_init(&pk, k.data()); ascon80pq_isap_aead_init(&pc, kc.data());
            r = aead_case(ENC(ascon80pq_isap_aead_encrypt), DEC(ascon80pq_isap_aead_decrypt), &pk, &pc, dir, adlen, mlen, tagmode, inplace);
            ascon80pq_isap_aead_free(&pk); ascon80pq_isap_aead_free(&pc); }
        return r;
    }
    if (fam == "MASKED") {     // masking randomness is secret (trng substitute); the masked key is made from the secret key
        int r;
        if (alg != "80pq") { ascon_masked_key_128_t mk, mc; ascon_masked_key_128_init(&mk, k.data()); ascon_masked_key_128_init(&mc, kc.data());
            ascon_masked_key_128_randomize(&mk);
            if (alg == "128") r = aead_case(ENC(ascon128_masked_aead_encrypt), DEC(ascon128_masked_aead_decrypt), &mk, &mc, dir, adlen, mlen, tagmode, inplace);
            else r = aead_case(ENC(ascon128a_masked_aead_encrypt), DEC(ascon128a_masked_aead_decrypt), &mk, &mc, dir, adlen, mlen, tagmode, inplace);
            if (dir == "ENC") { Bytes kx(17); ascon_masked_key_128_extract(&mk, kx.data()); out(kx.data(), 16); }
            ascon_masked_key_128_free(&mk); ascon_masked_key_128_free(&mc); }
        else { ascon_masked_key_160_t mk, mc; ascon_masked_key_160_init(&mk, k.data()); ascon_masked_key_160_init(&mc, kc.data());
            ascon_masked_key_160_randomize(&mk);
            r = aead_case(ENC(ascon80pq_masked_aead_encrypt), DEC(ascon80pq_masked_aead_decrypt), &mk, &mc, dir, adlen, mlen, tagmode, inplace);
            if (dir == "ENC") { Bytes kx(21); ascon_masked_key_160_extract(&mk, kx.data()); out(kx.data(), 20); }
            ascon_masked_key_160_free(&mk); ascon_masked_key_160_free(&mc); }
        return r;
    }
    return 101;
}

// ---- incremental AEAD:  AEADINC <alg> ENC|DEC <adlen> <chunk,chunk,..|-> <tagmode>
template <class S> struct IncApi {
    void (*init)(S *, const unsigned char *, const unsigned char *);
    void (*start)(S *, const unsigned char *, size_t);
    void (*eb)(S *, const unsigned char *, unsigned char *, size_t);
    void (*ef)(S *, unsigned char *);
    void (*db)(S *, const unsigned char *, unsigned char *, size_t);
    int (*df)(S *, const unsigned char *);
    void (*fr)(S *);
};
template <class S> static int inc_case(const IncApi<S> &A, size_t klen, const std::string &dir, size_t adlen, const std::vector<size_t> &chunks, const std::string &tagmode) {
    size_t mlen = sum(chunks);
    Bytes kc = fill(klen), k = kc, npub = fill(16), ad = fill(adlen); secret(k.data(), klen);
    Bytes m0 = fill(mlen), c(mlen + 17), tag(17);
    S s;
    if (dir == "ENC") {
        Bytes m = m0; secret(m.data(), mlen);
        A.init(&s, npub.data(), k.data()); A.start(&s, ad.data(), adlen);
        size_t off = 0;
        for (size_t i = 0; i < chunks.size(); ++i) { A.eb(&s, m.data() + off, c.data() + off, chunks[i]); off += chunks[i]; }
        A.ef(&s, tag.data()); A.fr(&s);
        out(c.data(), mlen); out(tag.data(), 16);
        return 0;
    }
    A.init(&s, npub.data(), kc.data()); A.start(&s, ad.data(), adlen);
    A.eb(&s, m0.data(), c.data(), mlen); A.ef(&s, tag.data()); A.fr(&s);
    pub(c.data(), mlen); pub(tag.data(), 16);
    damage(tag.data(), tagmode);
    Bytes m(mlen + 1);
    A.init(&s, npub.data(), k.data()); A.start(&s, ad.data(), adlen);
    size_t off = 0;
    for (size_t i = 0; i < chunks.size(); ++i) { A.db(&s, c.data() + off, m.data() + off, chunks[i]); off += chunks[i]; }
    int r = result(A.df(&s, tag.data())); A.fr(&s);
    out(m.data(), mlen);
    if ((tagmode == "ok") != (r == 0)) { printf("# unexpected verification result %d\n", r); return 100; }
    return r;
}
static int op_aeadinc(const std::vector<std::string> &t) {
    size_t adlen = strtoul(t[3].c_str(), 0, 10); std::vector<size_t> ch = nums(t[4]); std::string tm = t.size() > 5 ? t[5] : "ok";
    if (t[1] == "128") { IncApi<ascon128_state_t> A = {ascon128_aead_init, ascon128_aead_start, ascon128_aead_encrypt_block, ascon128_aead_encrypt_finalize, ascon128_aead_decrypt_block, ascon128_aead_decrypt_finalize, ascon128_aead_free}; return inc_case(A, 16, t[2], adlen, ch, tm); }
    if (t[1] == "128a") { IncApi<ascon128a_state_t> A = {ascon128a_aead_init, ascon128a_aead_start, ascon128a_aead_encrypt_block, ascon128a_aead_encrypt_finalize, ascon128a_aead_decrypt_block, ascon128a_aead_decrypt_finalize, ascon128a_aead_free}; return inc_case(A, 16, t[2], adlen, ch, tm); }
    IncApi<ascon80pq_state_t> A = {ascon80pq_aead_init, ascon80pq_aead_start, ascon80pq_aead_encrypt_block, ascon80pq_aead_encrypt_finalize, ascon80pq_aead_decrypt_block, ascon80pq_aead_decrypt_finalize, ascon80pq_aead_free};
    return inc_case(A, 20, t[2], adlen, ch, tm);
}

// ---- incremental AEAD re-initialisation:  AEADRE <alg> <npub:0|1|2> <k:0|1> <adlen> <mlen>
// init under a secret key and a secret nonce, one packet, then *_aead_reinit with npub NULL (0) / a fresh secret nonce (1) /
// the object's own nonce field (2, the documented way to continue the session) and k NULL (0) / a second secret key (1),
// then a second packet.  Which pointers are given is public; their contents are not.
template <class S> static int reinit_case(const IncApi<S> &A, void (*re)(S *, const unsigned char *, const unsigned char *), unsigned char *(*nonce_of)(S *),
                                          size_t klen, int nmode, int kmode, size_t adlen, size_t mlen) {
    Bytes k = sec(klen), npub = sec(16), ad = fill(adlen), m = sec(mlen), c(mlen + 1), tag(17);
    S s;
    A.init(&s, npub.data(), k.data()); A.start(&s, ad.data(), adlen); A.eb(&s, m.data(), c.data(), mlen); A.ef(&s, tag.data());
    out(c.data(), mlen); out(tag.data(), 16);
    Bytes k2 = sec(klen), n2 = sec(16);
    re(&s, nmode == 0 ? 0 : nmode == 1 ? n2.data() : nonce_of(&s), kmode ? k2.data() : 0);
    A.start(&s, ad.data(), adlen); A.eb(&s, m.data(), c.data(), mlen); A.ef(&s, tag.data());
    out(c.data(), mlen); out(tag.data(), 16);
    // and a decryption session after a further re-initialisation: the result is public, the recovered plaintext is output
    re(&s, n2.data(), k2.data());
    A.start(&s, ad.data(), adlen); A.db(&s, c.data(), m.data(), mlen); int r = result(A.df(&s, tag.data())); A.fr(&s);
    out(m.data(), mlen);
    return r == 0 ? 0 : 1;       // (the tag belongs to another nonce/key unless nmode = 1 and kmode = 1: either outcome is fine)
}
static unsigned char *nonce128(ascon128_state_t *s) { return s->nonce; }
static unsigned char *nonce128a(ascon128a_state_t *s) { return s->nonce; }
static unsigned char *nonce80pq(ascon80pq_state_t *s) { return s->nonce; }
static int op_aeadre(const std::vector<std::string> &t) {
    int nm = atoi(t[2].c_str()), km = atoi(t[3].c_str()); size_t adlen = strtoul(t[4].c_str(), 0, 10), mlen = strtoul(t[5].c_str(), 0, 10);
    if (t[1] == "128") { IncApi<ascon128_state_t> A = {ascon128_aead_init, ascon128_aead_start, ascon128_aead_encrypt_block, ascon128_aead_encrypt_finalize, ascon128_aead_decrypt_block, ascon128_aead_decrypt_finalize, ascon128_aead_free};
        return reinit_case(A, ascon128_aead_reinit, nonce128, 16, nm, km, adlen, mlen); }
    if (t[1] == "128a") { IncApi<ascon128a_state_t> A = {ascon128a_aead_init, ascon128a_aead_start, ascon128a_aead_encrypt_block, ascon128a_aead_encrypt_finalize, ascon128a_aead_decrypt_block, ascon128a_aead_decrypt_finalize, ascon128a_aead_free};
        return reinit_case(A, ascon128a_aead_reinit, nonce128a, 16, nm, km, adlen, mlen); }
    IncApi<ascon80pq_state_t> A = {ascon80pq_aead_init, ascon80pq_aead_start, ascon80pq_aead_encrypt_block, ascon80pq_aead_encrypt_finalize, ascon80pq_aead_decrypt_block, ascon80pq_aead_decrypt_finalize, ascon80pq_aead_free};
    return reinit_case(A, ascon80pq_aead_reinit, nonce80pq, 20, nm, km, adlen, mlen);
}

// ---- ISAP key life cycle:  ISAPKEY <alg> <adlen> <mlen>
// init from a secret key, save_key (the 80-byte image is as secret as the key: it is NOT published), load_key of that image
// into a second object, a packet under the loaded object, load_key of a fresh secret image over it, free of everything.
template <class K> struct IsapApi {
    void (*init)(K *, const unsigned char *); void (*load)(K *, const unsigned char *); void (*save)(K *, unsigned char *); void (*fr)(K *);
    void (*enc)(unsigned char *, size_t *, const unsigned char *, size_t, const unsigned char *, size_t, const unsigned char *, const K *);
    int (*dec)(unsigned char *, size_t *, const unsigned char *, size_t, const unsigned char *, size_t, const unsigned char *, const K *);
};
template <class K> static int isapkey_case(const IsapApi<K> &A, size_t klen, size_t adlen, size_t mlen) {
    Bytes k = sec(klen), ad = fill(adlen), npub = fill(16), m = sec(mlen), c(mlen + 17), m2(mlen + 1);
    unsigned char image[ASCON_ISAP_SAVED_KEY_SIZE], image2[ASCON_ISAP_SAVED_KEY_SIZE];
    K pk, pl; size_t clen = 0, mlen2 = 0;
    A.init(&pk, k.data());
    A.save(&pk, image);
    { unsigned char vb[ASCON_ISAP_SAVED_KEY_SIZE]; unsigned long n = 0;          // the image must carry the key's taint, otherwise this line observes nothing
      if (VALGRIND_GET_VBITS(image, vb, sizeof(vb)) == 1) { for (size_t i = 0; i < sizeof(vb); ++i) if (vb[i]) ++n; if (n == 0) return 100; } }
    A.load(&pl, image);
    A.enc(c.data(), &clen, m.data(), mlen, ad.data(), adlen, npub.data(), &pl);
    out(&clen, sizeof(clen)); out(c.data(), mlen + 16);
    int r = result(A.dec(m2.data(), &mlen2, c.data(), mlen + 16, ad.data(), adlen, npub.data(), &pk));     // the original object accepts it
    out(m2.data(), mlen);
    Bytes fresh = sec(ASCON_ISAP_SAVED_KEY_SIZE);
    A.load(&pl, fresh.data());                    // over a live object, from an image that is secret in every byte
    A.save(&pl, image2);
    A.enc(c.data(), &clen, m.data(), mlen, ad.data(), adlen, npub.data(), &pl);
    out(c.data(), mlen + 16);
    A.fr(&pk); A.fr(&pl);
    ascon_clean(image, sizeof(image)); ascon_clean(image2, sizeof(image2));
    return r == 0 ? 0 : 100;
}
static int op_isapkey(const std::vector<std::string> &t) {
    size_t adlen = strtoul(t[2].c_str(), 0, 10), mlen = strtoul(t[3].c_str(), 0, 10);
    if (t[1] == "128") { IsapApi<ascon128_isap_aead_key_t> A = {ascon128_isap_aead_init, ascon128_isap_aead_load_key, ascon128_isap_aead_save_key, ascon128_isap_aead_free, ascon128_isap_aead_encrypt, ascon128_isap_aead_decrypt};
        return isapkey_case(A, 16, adlen, mlen); }
    if (t[1] == "128a") { IsapApi<ascon128a_isap_aead_key_t> A = {ascon128a_isap_aead_init, ascon128a_isap_aead_load_key, ascon128a_isap_aead_save_key, ascon128a_isap_aead_free, ascon128a_isap_aead_encrypt, ascon128a_isap_aead_decrypt};
        return isapkey_case(A, 16, adlen, mlen); }
    IsapApi<ascon80pq_isap_aead_key_t> A = {ascon80pq_isap_aead_init, ascon80pq_isap_aead_load_key, ascon80pq_isap_aead_save_key, ascon80pq_isap_aead_free, ascon80pq_isap_aead_encrypt, ascon80pq_isap_aead_decrypt};
    return isapkey_case(A, 20, adlen, mlen);
}

// ---- PRF / MAC ----------------------------------------------------------------------
static int op_prf(const std::vector<std::string> &t) {
    const std::string &w = t[0];
    Bytes k = sec(16);
    if (w == "PRF" || w == "PRFFIXED" || w == "PRFSHORT") {     // <outlen> <inlen>
        size_t outlen = strtoul(t[1].c_str(), 0, 10), inlen = strtoul(t[2].c_str(), 0, 10);
        Bytes in = sec(inlen), o(outlen + 1);
        int r = 0;
        if (w == "PRF") ascon_prf(o.data(), outlen, in.data(), inlen, k.data());
        else if (w == "PRFFIXED") ascon_prf_fixed(o.data(), outlen, in.data(), inlen, k.data());
        else r = result(ascon_prf_short(o.data(), outlen, in.data(), inlen, k.data()));
        if (r == 0) out(o.data(), outlen);
        return r;
    }
    if (w == "MAC") { size_t inlen = strtoul(t[1].c_str(), 0, 10); Bytes in = sec(inlen), tag(17); ascon_mac(tag.data(), in.data(), inlen, k.data()); out(tag.data(), 16); return 0; }
    if (w == "MACV") {         // <inlen> <tagmode>: the message may be secret too; the presented tag is public
        size_t inlen = strtoul(t[1].c_str(), 0, 10); Bytes inc = fill(inlen), in = inc, kc = fill(16), k2 = kc, tag(17);
        secret(in.data(), inlen); secret(k2.data(), 16);
        ascon_mac(tag.data(), inc.data(), inlen, kc.data()); damage(tag.data(), t[2]);
        int r = result(ascon_mac_verify(tag.data(), in.data(), inlen, k2.data()));
        if ((t[2] == "ok") != (r == 0)) { printf("# unexpected verification result %d\n", r); return 100; }
        return r;
    }
    if (w == "PRFINC") {       // <chunks> <outs> [fixedlen]
        std::vector<size_t> ch = nums(t[1]), os = nums(t[2]);
        ascon_prf_state_t s;
        if (t.size() > 3) ascon_prf_fixed_init(&s, k.data(), strtoul(t[3].c_str(), 0, 10)); else ascon_prf_init(&s, k.data());
        for (size_t i = 0; i < ch.size(); ++i) { Bytes in = sec(ch[i]); ascon_prf_absorb(&s, in.data(), ch[i]); }
        for (size_t i = 0; i < os.size(); ++i) { Bytes o(os[i] + 1); ascon_prf_squeeze(&s, o.data(), os[i]); out(o.data(), os[i]); }
        // re-initialisation under a second secret key: the fixed-length form for a fixed-length object
        { Bytes k2 = sec(16);
          if (t.size() > 3) ascon_prf_fixed_reinit(&s, k2.data(), strtoul(t[3].c_str(), 0, 10)); else ascon_prf_reinit(&s, k2.data());
          Bytes in = sec(9); ascon_prf_absorb(&s, in.data(), 9);
          Bytes o(9); ascon_prf_squeeze(&s, o.data(), 8); out(o.data(), 8); }
        ascon_prf_free(&s);
        return 0;
    }
    return 101;
}

// ---- HMAC / KMAC / KDF / HKDF / PBKDF2 ---------------------------------------------------
static int op_hmac(const std::vector<std::string> &t) {      // HMAC <-|a> <keylen> <chunks> [oneshot]
    bool a = t[1] == "a"; size_t keylen = strtoul(t[2].c_str(), 0, 10); std::vector<size_t> ch = nums(t[3]);
    Bytes key = sec(keylen), o(33);
    if (t.size() > 4) {
        size_t n = sum(ch); Bytes in = sec(n);
        if (a) ascon_hmaca(o.data(), key.data(), keylen, in.data(), n); else ascon_hmac(o.data(), key.data(), keylen, in.data(), n);
        out(o.data(), 32); return 0;
    }
    if (a) { ascon_hmaca_state_t s; ascon_hmaca_init(&s, key.data(), keylen);
        for (size_t i = 0; i < ch.size(); ++i) { Bytes in = sec(ch[i]); ascon_hmaca_update(&s, in.data(), ch[i]); }
        ascon_hmaca_finalize(&s, key.data(), keylen, o.data()); out(o.data(), 32);
        ascon_hmaca_reinit(&s, key.data(), keylen); ascon_hmaca_finalize(&s, key.data(), keylen, o.data()); out(o.data(), 32); ascon_hmaca_free(&s); }
    else { ascon_hmac_state_t s; ascon_hmac_init(&s, key.data(), keylen);
        for (size_t i = 0; i < ch.size(); ++i) { Bytes in = sec(ch[i]); ascon_hmac_update(&s, in.data(), ch[i]); }
        ascon_hmac_finalize(&s, key.data(), keylen, o.data()); out(o.data(), 32);
        ascon_hmac_reinit(&s, key.data(), keylen); ascon_hmac_finalize(&s, key.data(), keylen, o.data()); out(o.data(), 32); ascon_hmac_free(&s); }
    return 0;
}
static int op_kmac(const std::vector<std::string> &t) {      // KMAC <-|a> <keylen> <chunks> <customlen> <outs> [oneshot]
    bool a = t[1] == "a"; size_t keylen = strtoul(t[2].c_str(), 0, 10), cl = strtoul(t[4].c_str(), 0, 10);
    std::vector<size_t> ch = nums(t[3]), os = nums(t[5]);
    Bytes key = sec(keylen), custom = fill(cl);
    if (t.size() > 6) {
        size_t n = sum(ch), ol = sum(os); Bytes in = sec(n), o(ol + 1);
        if (a) ascon_kmaca(key.data(), keylen, in.data(), n, custom.data(), cl, o.data(), ol); else ascon_kmac(key.data(), keylen, in.data(), n, custom.data(), cl, o.data(), ol);
        out(o.data(), ol); return 0;
    }
    size_t total = sum(os);
    if (a) { ascon_kmaca_state_t s; ascon_kmaca_init(&s, key.data(), keylen, custom.data(), cl, total);
        for (size_t i = 0; i < ch.size(); ++i) { Bytes in = sec(ch[i]); ascon_kmaca_absorb(&s, in.data(), ch[i]); }
        for (size_t i = 0; i < os.size(); ++i) { Bytes o(os[i] + 1); ascon_kmaca_squeeze(&s, o.data(), os[i]); out(o.data(), os[i]); }
        { Bytes key2 = sec(keylen), in = sec(9), o(total + 1); ascon_kmaca_reinit(&s, key2.data(), keylen, custom.data(), cl, total);
          ascon_kmaca_absorb(&s, in.data(), 9); ascon_kmaca_squeeze(&s, o.data(), total); out(o.data(), total); }
        ascon_kmaca_free(&s); }
    else { ascon_kmac_state_t s; ascon_kmac_init(&s, key.data(), keylen, custom.data(), cl, total);
        for (size_t i = 0; i < ch.size(); ++i) { Bytes in = sec(ch[i]); ascon_kmac_absorb(&s, in.data(), ch[i]); }
        for (size_t i = 0; i < os.size(); ++i) { Bytes o(os[i] + 1); ascon_kmac_squeeze(&s, o.data(), os[i]); out(o.data(), os[i]); }
        { Bytes key2 = sec(keylen), in = sec(9), o(total + 1); ascon_kmac_reinit(&s, key2.data(), keylen, custom.data(), cl, total);
          ascon_kmac_absorb(&s, in.data(), 9); ascon_kmac_squeeze(&s, o.data(), total); out(o.data(), total); }
        ascon_kmac_free(&s); }
    return 0;
}
static int op_kdf(const std::vector<std::string> &t) {       // KDF <-|a> <keylen> <customlen> <outs> [oneshot]
    bool a = t[1] == "a"; size_t keylen = strtoul(t[2].c_str(), 0, 10), cl = strtoul(t[3].c_str(), 0, 10); std::vector<size_t> os = nums(t[4]);
    Bytes key = sec(keylen), custom = fill(cl);
    if (t.size() > 5) { size_t ol = sum(os); Bytes o(ol + 1);
        if (a) ascon_kdfa(o.data(), ol, key.data(), keylen, custom.data(), cl); else ascon_kdf(o.data(), ol, key.data(), keylen, custom.data(), cl);
        out(o.data(), ol); return 0; }
    if (a) { ascon_kdfa_state_t s; ascon_kdfa_init(&s, key.data(), keylen, custom.data(), cl, sum(os));
        for (size_t i = 0; i < os.size(); ++i) { Bytes o(os[i] + 1); ascon_kdfa_squeeze(&s, o.data(), os[i]); out(o.data(), os[i]); }
        { Bytes key2 = sec(keylen), o(sum(os) + 1); ascon_kdfa_reinit(&s, key2.data(), keylen, custom.data(), cl, sum(os)); ascon_kdfa_squeeze(&s, o.data(), sum(os)); out(o.data(), sum(os)); }
        ascon_kdfa_free(&s); }
    else { ascon_kdf_state_t s; ascon_kdf_init(&s, key.data(), keylen, custom.data(), cl, sum(os));
        for (size_t i = 0; i < os.size(); ++i) { Bytes o(os[i] + 1); ascon_kdf_squeeze(&s, o.data(), os[i]); out(o.data(), os[i]); }
        { Bytes key2 = sec(keylen), o(sum(os) + 1); ascon_kdf_reinit(&s, key2.data(), keylen, custom.data(), cl, sum(os)); ascon_kdf_squeeze(&s, o.data(), sum(os)); out(o.data(), sum(os)); }
        ascon_kdf_free(&s); }
    return 0;
}
static int op_hkdf(const std::vector<std::string> &t) {      // HKDF <-|a> <keylen> <saltlen> <infolen> <outs> [oneshot]   (salt is secret too: it keys the extraction)
    bool a = t[1] == "a"; size_t keylen = strtoul(t[2].c_str(), 0, 10), sl = strtoul(t[3].c_str(), 0, 10), il = strtoul(t[4].c_str(), 0, 10);
    std::vector<size_t> os = nums(t[5]);
    Bytes key = sec(keylen), salt = sec(sl), info = fill(il);
    if (t.size() > 6) { size_t ol = sum(os); Bytes o(ol + 1);
        int r = result(a ? ascon_hkdfa(o.data(), ol, key.data(), keylen, salt.data(), sl, info.data(), il) : ascon_hkdf(o.data(), ol, key.data(), keylen, salt.data(), sl, info.data(), il));
        out(o.data(), ol); return r; }
    int r = 0;
    if (a) { ascon_hkdfa_state_t s; ascon_hkdfa_extract(&s, key.data(), keylen, salt.data(), sl);
        for (size_t i = 0; i < os.size(); ++i) { Bytes o(os[i] + 1); r |= result(ascon_hkdfa_expand(&s, info.data(), il, o.data(), os[i])); out(o.data(), os[i]); } ascon_hkdfa_free(&s); }
    else { ascon_hkdf_state_t s; ascon_hkdf_extract(&s, key.data(), keylen, salt.data(), sl);
        for (size_t i = 0; i < os.size(); ++i) { Bytes o(os[i] + 1); r |= result(ascon_hkdf_expand(&s, info.data(), il, o.data(), os[i])); out(o.data(), os[i]); } ascon_hkdf_free(&s); }
    return r;
}
static int op_pbkdf2(const std::vector<std::string> &t) {    // PBKDF2 <xof|hmac> <outlen> <pwlen> <saltlen> <count>
    size_t ol = strtoul(t[2].c_str(), 0, 10), pl = strtoul(t[3].c_str(), 0, 10), sl = strtoul(t[4].c_str(), 0, 10); unsigned long cnt = strtoul(t[5].c_str(), 0, 10);
    Bytes pw = sec(pl), salt = fill(sl), o(ol + 1);
    if (t[1] == "hmac") ascon_pbkdf2_hmac(o.data(), ol, pw.data(), pl, salt.data(), sl, cnt); else ascon_pbkdf2(o.data(), ol, pw.data(), pl, salt.data(), sl, cnt);
    out(o.data(), ol); return 0;
}

// ---- PRNG:  PRNG <step,step,...>  steps: init fetch<n> feed<n> reseed save load free oneshot<n> ------------------
static unsigned char g_store[64]; static int g_store_fail = 0;
static int st_read(const ascon_storage_t *, size_t, unsigned char *d, size_t n) { if (g_store_fail) return -1; memcpy(d, g_store, n); secret(d, n); return (int)n; }
static int st_write(const ascon_storage_t *, size_t, const unsigned char *d, size_t n, int) { memcpy(g_store, d, n); pub(g_store, n); return (int)n; }
static int op_prng(const std::vector<std::string> &t) {
    std::vector<std::string> steps = split(t[1], ',');
    ascon_random_state_t s; memset(&s, 0, sizeof(s));
    ascon_storage_t st; memset(&st, 0, sizeof(st)); st.size = 64; st.erase_size = 0; st.read = st_read; st.write = st_write;
    int acc = 0;
    for (size_t i = 0; i < steps.size(); ++i) {
        const std::string &w = steps[i];
        if (w == "init") acc += result(ascon_random_init(&s));
        else if (w.compare(0, 5, "fetch") == 0) { size_t n = strtoul(w.c_str() + 5, 0, 10); Bytes o(n + 1); ascon_random_fetch(&s, o.data(), n); out(o.data(), n); }
        else if (w.compare(0, 4, "feed") == 0) { size_t n = strtoul(w.c_str() + 4, 0, 10); Bytes e = sec(n); ascon_random_feed(&s, e.data(), n); }
        else if (w == "reseed") acc += result(ascon_random_reseed(&s));
        else if (w == "save") acc += result(ascon_random_save_seed(&s, &st));
        else if (w == "load") acc += result(ascon_random_load_seed(&s, &st));
        else if (w == "loadfail") { g_store_fail = 1; acc += result(ascon_random_load_seed(&s, &st)); g_store_fail = 0; }
        else if (w == "limit") { s.counter = 16384; }            // next fetch re-seeds first (counter is public bookkeeping)
        else if (w == "free") ascon_random_free(&s);
        else if (w.compare(0, 7, "oneshot") == 0) { size_t n = strtoul(w.c_str() + 7, 0, 10); Bytes o(n + 1); acc += result(ascon_random(o.data(), n)); out(o.data(), n); }
        else return 101;
    }
    return acc;
}

// TRNG <n32> <n64>: the mixer itself - init, n32 32-bit words, n64 64-bit words, reseed, one more word, free
static int op_trng(const std::vector<std::string> &t) {
    ascon_trng_state_t s; int ok = result(ascon_trng_init(&s));
    for (unsigned long i = 0, n = strtoul(t[1].c_str(), 0, 10); i < n; ++i) { uint32_t v = ascon_trng_generate_32(&s); out(&v, sizeof(v)); }
    for (unsigned long i = 0, n = strtoul(t[2].c_str(), 0, 10); i < n; ++i) { uint64_t v = ascon_trng_generate_64(&s); out(&v, sizeof(v)); }
    ok += result(ascon_trng_reseed(&s));
    { uint64_t v = ascon_trng_generate_64(&s); out(&v, sizeof(v)); }
    ascon_trng_free(&s);
    return ok;
}

static int run_line(const std::string &line) {
    std::vector<std::string> t; { std::istringstream is(line); std::string w; while (is >> w) t.push_back(w); }
    if (t.empty()) return 0;
    const std::string &w = t[0];
    if (w == "CANARY") { if (t[1] == "branch") canary_branch(); else if (t[1] == "addr") canary_addr(); else canary_memcmp(); return 0; }
    if (w == "AEAD" || w == "SIV" || w == "ISAP" || w == "MASKED") return op_aead(t);
    if (w == "AEADINC") return op_aeadinc(t);
    if (w == "AEADRE") return op_aeadre(t);
    if (w == "ISAPKEY") return op_isapkey(t);
    if (w == "PRF" || w == "PRFFIXED" || w == "PRFSHORT" || w == "MAC" || w == "MACV" || w == "PRFINC") return op_prf(t);
    if (w == "HMAC") return op_hmac(t);
    if (w == "KMAC") return op_kmac(t);
    if (w == "KDF") return op_kdf(t);
    if (w == "HKDF") return op_hkdf(t);
    if (w == "PBKDF2") return op_pbkdf2(t);
    if (w == "PRNG") return op_prng(t);
    if (w == "TRNG") return op_trng(t);
    return 101;
}

int main() {
    std::string line;
    while (std::getline(std::cin, line)) {
        if (line.empty() || line[0] == '#') continue;
        g_x = 0x9E3779B97F4A7C15ULL; for (size_t i = 0; i < line.size(); ++i) { g_x ^= (unsigned char)line[i]; nextw(); }
        g_fnv = 1469598103934665603ULL; g_tainted = 0;
        VALGRIND_PRINTF("CTOP %s\n", line.c_str());
        unsigned long before = VALGRIND_COUNT_ERRORS;
        int r = run_line(line);
        unsigned long after = VALGRIND_COUNT_ERRORS;
        printf("R %lu %d %016llx t=%lu  %s\n", after - before, r, (unsigned long long)g_fnv, g_tainted, line.c_str());
        fflush(stdout);
    }
    return 0;
}
