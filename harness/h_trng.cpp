// Link-time substitute for the library's random source (src/random/
// ascon-trng-*.c): defining every ascon_trng_* symbol here, before
// libascon_static.a on the link line, keeps the archive's own members out.
// The tape is scripted through the TRNG operation.
#include "hx.h"
#include <deque>
extern "C" {
#include "random/ascon-trng.h"
#include "core/ascon-select-backend.h"
}

static std::string g_mode = "prng";
static uint64_t g_x = 0x9E3779B97F4A7C15ULL, g_rep = 0, g_ctr = 0;
static std::deque<uint64_t> g_list;
unsigned long g_trng_words = 0, g_trng_sys_calls = 0;
static std::deque<std::pair<std::vector<unsigned char>, int> > g_sys;   // scripted system answers

static uint64_t next_word() {
    ++g_trng_words;
    if (!g_list.empty()) { uint64_t v = g_list.front(); g_list.pop_front(); return v; }
    if (g_mode == "zero") return 0;
    if (g_mode == "ones") return ~(uint64_t)0;
    if (g_mode == "rep") return g_rep;
    if (g_mode == "alt") return (g_ctr++ & 1) ? ~(uint64_t)0 : 0;
    if (g_mode == "counter") return ++g_ctr;
    g_x ^= g_x << 13; g_x ^= g_x >> 7; g_x ^= g_x << 17;       // xorshift64
    return g_x;
}

extern "C" int ascon_trng_generate(unsigned char *out, size_t outlen) {
    ++g_trng_sys_calls;
    if (!g_sys.empty()) {
        std::pair<std::vector<unsigned char>, int> a = g_sys.front(); g_sys.pop_front();
        for (size_t i = 0; i < outlen; ++i) out[i] = i < a.first.size() ? a.first[i] : 0;
        return a.second;
    }
    for (size_t i = 0; i < outlen; ++i) out[i] = (unsigned char)(next_word() >> 11);
    return 1;
}
#ifndef VERIF_REAL_MIXER      /* -DVERIF_REAL_MIXER: only the system source is scripted, the library's own mixer (ascon-trng-mixer.c) is linked */
extern "C" int ascon_trng_init(ascon_trng_state_t *state) { memset(state, 0, sizeof(*state)); return 1; }
extern "C" void ascon_trng_free(ascon_trng_state_t *state) { (void)state; }
extern "C" uint32_t ascon_trng_generate_32(ascon_trng_state_t *state) { (void)state; return (uint32_t)next_word(); }
extern "C" uint64_t ascon_trng_generate_64(ascon_trng_state_t *state) { (void)state; return next_word(); }
extern "C" int ascon_trng_reseed(ascon_trng_state_t *state) { (void)state; return 1; }
#endif

// MIX <k>: the library's mixer on top of the scripted system source (meaningful in a -DVERIF_REAL_MIXER build):
//   init (one system request), k 64-bit words, 3 32-bit words, reseed (one system request), k more words.
//   Result: "<init status> <reseed status> <system requests> <words after init as hex> <words after reseed as hex>"
static std::string op_mix(const Toks &t) {
    int k = atoi(t[1].c_str());
    unsigned long before = g_trng_sys_calls;
    ascon_trng_state_t st;
    int ok1 = ascon_trng_init(&st);
    std::string w1, w2;
    char buf[32];
    for (int i = 0; i < k; ++i) { snprintf(buf, sizeof(buf), "%016llx", (unsigned long long)ascon_trng_generate_64(&st)); w1 += buf; }
    for (int i = 0; i < 3; ++i) { snprintf(buf, sizeof(buf), "%08x", (unsigned)ascon_trng_generate_32(&st)); w1 += buf; }
    // a 64-bit draw right after an odd number of 32-bit draws must start a fresh block, not overlap what was handed out
    uint32_t h32[3]; { const char *q = w1.c_str() + w1.size() - 24; for (int i = 0; i < 3; ++i) { char tmp[9]; memcpy(tmp, q + 8 * i, 8); tmp[8] = 0; h32[i] = (uint32_t)strtoul(tmp, 0, 16); } }
    uint64_t x64 = ascon_trng_generate_64(&st);
    bool overlap = false;
    for (int i = 0; i < 3; ++i) if ((uint32_t)x64 == h32[i] || (uint32_t)(x64 >> 32) == h32[i]) overlap = true;
    w1 += overlap ? "OVERLAP" : "";
    int ok2 = ascon_trng_reseed(&st);
    for (int i = 0; i < k; ++i) { snprintf(buf, sizeof(buf), "%016llx", (unsigned long long)ascon_trng_generate_64(&st)); w2 += buf; }
    ascon_trng_free(&st);
    return std::to_string(ok1 ? 1 : 0) + " " + std::to_string(ok2 ? 1 : 0) + " " + std::to_string(g_trng_sys_calls - before) + " " + w1 + " " + w2;
}
static Reg r_mix("MIX", op_mix);

// MIXM <kind> <n> <seed1> <ok1> <seed2> <ok2>: the same history with the system answers given on the line and the words printed as the
// numbers they are (compared with Model/Mixerm.v, which needs to know how the backend keeps the state: <kind> must be this build's)
static std::string op_mixm(const Toks &t) {
#if defined(ASCON_BACKEND_SLICED64)
    const char *mine = "0";
#elif defined(ASCON_BACKEND_DIRECT_XOR)
    const char *mine = "1";
#elif defined(ASCON_BACKEND_SLICED32)
    const char *mine = "2";
#else
    const char *mine = "?";
#endif
    if (t[1] != mine) return std::string("KIND-IS-") + mine;
    int n = atoi(t[2].c_str());
    g_sys.clear();
    g_sys.push_back(std::make_pair(unhex(t[3]), atoi(t[4].c_str())));
    g_sys.push_back(std::make_pair(unhex(t[5]), atoi(t[6].c_str())));
    ascon_trng_state_t st;
    char buf[32];
    std::string a, b, d;
    int ok1 = ascon_trng_init(&st);
    for (int i = 0; i < n; ++i) { snprintf(buf, sizeof(buf), "%016llx", (unsigned long long)ascon_trng_generate_64(&st)); a += buf; }
    for (int i = 0; i < 3; ++i) { snprintf(buf, sizeof(buf), "%08x", (unsigned)ascon_trng_generate_32(&st)); b += buf; }
    snprintf(buf, sizeof(buf), "%016llx", (unsigned long long)ascon_trng_generate_64(&st)); a += buf;
    int ok2 = ascon_trng_reseed(&st);
    for (int i = 0; i < n; ++i) { snprintf(buf, sizeof(buf), "%016llx", (unsigned long long)ascon_trng_generate_64(&st)); d += buf; }
    ascon_trng_free(&st);
    return std::to_string(ok1 ? 1 : 0) + " " + std::to_string(ok2 ? 1 : 0) + " " + a + " " + b + " " + (d.empty() ? std::string("") : d);
}
static Reg r_mixm("MIXM", op_mixm);

void hx_trng_script(const std::vector<uint64_t> &words) {
    g_mode = "zero"; g_ctr = 0; g_list.clear();
    for (size_t i = 0; i < words.size(); ++i) g_list.push_back(words[i]);
}

// TRNG MODE <zero|ones|alt|counter|prng|rep> [hex64]   - word tape behaviour
// TRNG LIST <hex64>,<hex64>,...                         - explicit next words
// TRNG SYS <hexbytes> <ok>                              - queue one system answer
// TRNG COUNT                                            - "<words> <syscalls>" since start
static std::string op_trng(const Toks &t) {
    if (t[1] == "MODE") {
        g_mode = t[2]; g_ctr = 0; g_list.clear();
        if (t.size() > 3) { g_rep = strtoull(t[3].c_str(), 0, 16); g_x = g_rep ? g_rep : 1; }
        return "OK";
    }
    if (t[1] == "LIST") {
        size_t i = 0; const std::string &s = t[2];
        while (i < s.size()) { size_t j = s.find(',', i); if (j == std::string::npos) j = s.size();
            g_list.push_back(strtoull(s.substr(i, j - i).c_str(), 0, 16)); i = j + 1; }
        return "OK";
    }
    if (t[1] == "SYS") { g_sys.push_back(std::make_pair(unhex(t[2]), atoi(t[3].c_str()))); return "OK"; }
    if (t[1] == "SYSCLEAR") { g_sys.clear(); return "OK"; }
    if (t[1] == "COUNT") return std::to_string(g_trng_words) + " " + std::to_string(g_trng_sys_calls);
    return "UNSUPPORTED";
}
static Reg r_trng("TRNG", op_trng);
