// AEAD through the masked API (AEM) and through the C++ classes (AEC).
#include "hx.h"
#include <ascon/aead.h>
#include <ascon/aead-masked.h>
#include <ascon/siv.h>
#include <ascon/isap.h>
#include <ascon/masking.h>

static std::string op_aem(const Toks &t) {
    const std::string &v = t[1];
    bool enc = t[2] == "ENC";
    Buf k(unhex(t[3])), n(unhex(t[4])), ad(unhex(t[5]), true), in(unhex(t[6]), true);
    size_t olen_cap = enc ? in.n + 16 : (in.n >= 16 ? in.n - 16 : 0);
    Buf out(olen_cap);
    size_t olen = (size_t)-7; int r = 0;
    // trailing "RK" / "RK2": the masked key is re-randomized (once / twice) between its creation and its use
    int rk = (t.size() > 7 && t[7] == "RK") ? 1 : (t.size() > 7 && t[7] == "RK2") ? 2 : 0;
    if (v == "80pq") {
        ascon_masked_key_160_t mk; ascon_masked_key_160_init(&mk, k.p);
        for (int i = 0; i < rk; ++i) ascon_masked_key_160_randomize(&mk);
        if (enc) ascon80pq_masked_aead_encrypt(out.p, &olen, in.p, in.n, ad.p, ad.n, n.p, &mk);
        else r = ascon80pq_masked_aead_decrypt(out.p, &olen, in.p, in.n, ad.p, ad.n, n.p, &mk);
        ascon_masked_key_160_free(&mk);
    } else {
        ascon_masked_key_128_t mk; ascon_masked_key_128_init(&mk, k.p);
        for (int i = 0; i < rk; ++i) ascon_masked_key_128_randomize(&mk);
        if (v == "128") {
            if (enc) ascon128_masked_aead_encrypt(out.p, &olen, in.p, in.n, ad.p, ad.n, n.p, &mk);
            else r = ascon128_masked_aead_decrypt(out.p, &olen, in.p, in.n, ad.p, ad.n, n.p, &mk);
        } else {
            if (enc) ascon128a_masked_aead_encrypt(out.p, &olen, in.p, in.n, ad.p, ad.n, n.p, &mk);
            else r = ascon128a_masked_aead_decrypt(out.p, &olen, in.p, in.n, ad.p, ad.n, n.p, &mk);
        }
        ascon_masked_key_128_free(&mk);
    }
    if (enc) return out.hx() + " " + std::to_string(olen);
    if (in.n < 16) {
        if (r >= 0) return "SHORT-ACCEPTED";
        if (olen != (size_t)-7 || !out.untouched()) return "SHORT-WROTE";
        return "SHORT";
    }
    if (olen != olen_cap) return "BADMLEN " + std::to_string(olen);
    return std::to_string(r < 0 ? -1 : r) + " " + out.hx();
}
static Reg r_aem("AEM", op_aem);

// key constructors: C(key) for the AEAD and SIV classes, C(key, len) for the ISAP classes
template <class C, bool LEN> struct MkObj { static C *make(const unsigned char *k, size_t) { return new C(k); } };
template <class C> struct MkObj<C, true> { static C *make(const unsigned char *k, size_t klen) { return new C(k, klen); } };

template <class C, bool LEN = false> static std::string cpp_run(const Toks &t, size_t klen) {
    bool enc = t[2] == "ENC";
    std::vector<unsigned char> k = unhex(t[3]), n = unhex(t[4]), ad = unhex(t[5]), in = unhex(t[6]);
    std::string path = t.size() > 7 ? t[7] : "ctor";
    C *obj;
    if (path == "setkey" || path == "setkeybad") {
        obj = new C(); if (!obj->set_key(k.data(), klen)) { delete obj; return "SETKEY-FAILED"; }
        // a refused set_key (wrong length; NULL with a non-zero length) must leave the key that is set untouched
        if (path == "setkeybad") {
            std::vector<unsigned char> junk(klen + 9, 0x3c);
            if (obj->set_key(junk.data(), klen + 1) || obj->set_key(junk.data(), klen - 1) || obj->set_key(0, klen)) { delete obj; return "BAD-SETKEY-ACCEPTED"; }
        }
    }
    else if (path == "setkeylast") {
        // nonce first, key afterwards: set_key is documented to leave the nonce as it is
        obj = new C(); obj->set_nonce(n.data(), n.size());
        if (!obj->set_key(k.data(), klen)) { delete obj; return "SETKEY-FAILED"; }
    }
    else obj = MkObj<C, LEN>::make(k.data(), klen);
    if (path != "setkeylast") obj->set_nonce(n.data(), n.size());
    std::string res;
    if (t.size() > 8 && t[8] == "BA") {
        ascon::byte_array out, bin(in.begin(), in.end()), bad(ad.begin(), ad.end());
        if (enc) { obj->encrypt(out, bin, bad); res = hex(out.data(), out.size()) + " " + std::to_string(out.size()); }
        else { bool ok = obj->decrypt(out, bin, bad);
               res = in.size() < 16 ? (ok ? "SHORT-ACCEPTED" : (out.size() ? "SHORT-WROTE" : "SHORT"))
                                    : (ok ? "0 " + hex(out.data(), out.size()) : (out.size() ? "FAIL-NOT-CLEARED" : "-1 BA")); }
    } else {
        Buf bin(in, true), bad(ad, true);
        Buf out(enc ? in.size() + 16 : (in.size() >= 16 ? in.size() - 16 : 0));
        if (enc) { int r = obj->encrypt(out.p, bin.p, bin.n, bad.p, bad.n); res = out.hx() + " " + std::to_string(r); }
        else { int r = obj->decrypt(out.p, bin.p, bin.n, bad.p, bad.n);
               if (in.size() < 16) res = r >= 0 ? "SHORT-ACCEPTED" : (out.untouched() ? "SHORT" : "SHORT-WROTE");
               else res = (r >= 0 ? std::string("0") : std::string("-1")) + " " + out.hx(); }
    }
    delete obj;
    return res;
}
static std::string op_aec(const Toks &t) {
    if (t[1] == "128") return cpp_run<ascon::aead128>(t, 16);
    if (t[1] == "128a") return cpp_run<ascon::aead128a>(t, 16);
    if (t[1] == "80pq") return cpp_run<ascon::aead80pq>(t, 20);
    return "UNSUPPORTED";
}
static Reg r_aec("AEC", op_aec);

// SIVC / ISAPC <v> ENC|DEC <k> <n> <ad> <in> [ctor|setkey [BA]]: the SIV and ISAP modes through their C++ classes
static std::string op_sivc(const Toks &t) {
    if (t[1] == "128") return cpp_run<ascon::siv128>(t, 16);
    if (t[1] == "128a") return cpp_run<ascon::siv128a>(t, 16);
    if (t[1] == "80pq") return cpp_run<ascon::siv80pq>(t, 20);
    return "UNSUPPORTED";
}
static std::string op_isapc(const Toks &t) {
    if (t[1] == "128") return cpp_run<ascon::isap128, true>(t, 16);
    if (t[1] == "128a") return cpp_run<ascon::isap128a, true>(t, 16);
    if (t[1] == "80pq") return cpp_run<ascon::isap80pq, true>(t, 20);
    return "UNSUPPORTED";
}
static Reg r_sivc("SIVC", op_sivc), r_isapc("ISAPC", op_isapc);
