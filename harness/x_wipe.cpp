// C13 - stand-alone program (not part of verif_harness; file name does not
// start with h_): raw bytes of every state object after free / clear() /
// destructor, in the library exactly as shipped (Release -O3
// libascon_static.a built from /repo's working tree).
//
// stdin, one request per line:
//   LAYOUT                      -> one "LAYOUT <type> size=<n> <field>:<off>:<len> ..." line per type, then "END"
//   Z <cpp_isap type>           -> hex of the 80-byte pre-computed key of the all-zero key
//   H <type> <how> <seedA> <seedB> <op>[:a[:b[:c]]] ...
//        runs the history twice, with secrets (keys, nonces, messages, seeds,
//        random tape) drawn from seedA resp. seedB - same lengths -, then
//        performs <how> = free | dtor | clear and dumps sizeof(T) raw bytes:
//        "OK size=<n> A=<hex> B=<hex> D=<bytes that differed between the two runs just before the wipe>
//            W=<fields changed by op1>;<fields changed by op2>;..."   (union over both runs; PAD@<off> = byte outside every field)
// The object lives in a malloc'ed buffer pre-filled with 0xA5 (same in both
// runs), so that padding the library never writes is deterministic.
#include <string>
#include <vector>
#include <map>
#include <set>
#include <iostream>
#include <sstream>
#include <new>
#include <cstdio>
#include <cstdlib>
#include <cstring>
#include <cstdint>
#include <cstddef>
#include <stdexcept>
// after the standard headers: only to take offsetof of private members
#define private public
#define protected public
#include <ascon/permutation.h>
#include <ascon/aead.h>
#include <ascon/aead-masked.h>
#include <ascon/siv.h>
#include <ascon/isap.h>
#include <ascon/xof.h>
#include <ascon/hash.h>
#include <ascon/prf.h>
#include <ascon/hmac.h>
#include <ascon/kmac.h>
#include <ascon/kdf.h>
#include <ascon/hkdf.h>
#include <ascon/random.h>
#include <ascon/masking.h>
#include <ascon/storage.h>
#include <ascon/utility.h>
#undef private
#undef protected
extern "C" {
#include "random/ascon-trng.h"
#include "masking/ascon-masked-state.h"
}

typedef std::vector<unsigned char> Bytes;
typedef std::vector<long> Args;

// ---- deterministic secrets ------------------------------------------------
struct Prg {
    uint64_t s;
    void seed(uint64_t v) { s = v * 0x9E3779B97F4A7C15ULL + 0xD1B54A32D192ED03ULL; if (!s) s = 1; for (int i = 0; i < 4; ++i) next(); }
    uint64_t next() { s ^= s << 13; s ^= s >> 7; s ^= s << 17; return s * 0x2545F4914F6CDD1DULL; }
    unsigned char byte() { return (unsigned char)(next() >> 32); }
};
static Prg g_sec, g_tape;
static Bytes sec(size_t n) { Bytes v(n ? n : 1); for (size_t i = 0; i < v.size(); ++i) v[i] = g_sec.byte(); v.resize(n); v.reserve(n + 32); return v; }
static std::string secname(size_t n) { std::string s; for (size_t i = 0; i < n; ++i) s += (char)('a' + g_sec.byte() % 26); return s; }
// pointer that is valid (and has 32 readable bytes) even for n = 0
struct In { Bytes v; explicit In(size_t n) : v(sec(n + 32)) { } const unsigned char *p() const { return v.data(); } };
struct Out { Bytes v; explicit Out(size_t n) : v(n + 32, 0xEE) { } unsigned char *p() { return v.data(); } };

// ---- link-time substitute of the library's random source -------------------
extern "C" int ascon_trng_generate(unsigned char *out, size_t outlen) { for (size_t i = 0; i < outlen; ++i) out[i] = g_tape.byte(); return 1; }
extern "C" int ascon_trng_init(ascon_trng_state_t *state) { memset(state, 0, sizeof(*state)); return 1; }
extern "C" void ascon_trng_free(ascon_trng_state_t *state) { (void)state; }
extern "C" uint32_t ascon_trng_generate_32(ascon_trng_state_t *state) { (void)state; return (uint32_t)g_tape.next(); }
extern "C" uint64_t ascon_trng_generate_64(ascon_trng_state_t *state) { (void)state; return g_tape.next(); }
extern "C" int ascon_trng_reseed(ascon_trng_state_t *state) { (void)state; return 1; }

// ---- helpers ---------------------------------------------------------------
static std::string hex(const unsigned char *p, size_t n) {
    static const char *d = "0123456789abcdef"; std::string s;
    for (size_t i = 0; i < n; ++i) { s += d[p[i] >> 4]; s += d[p[i] & 15]; }
    return s;
}
struct Field { std::string name; size_t off, len; };
struct Layout { size_t size; std::vector<Field> f; };
#define F(T, member) Field{#member, offsetof(T, member), sizeof(((T *)0)->member)}
static inline long arg(const Args &a, size_t i) { return i < a.size() ? a[i] : 0; }
static void barrier(void *p) { asm volatile("" : : "r"(p) : "memory"); }

struct Obj {
    unsigned char *buf; size_t n;
    explicit Obj(size_t n_) : n(n_) { buf = (unsigned char *)aligned_alloc(16, (n + 15) / 16 * 16 + 16); memset(buf, 0xA5, n); }
    virtual ~Obj() { free(buf); }
    virtual bool op(const std::string &o, const Args &a) = 0;   // false: unknown operation
    virtual void erase(const std::string &how) = 0;
    virtual void after_dump(const std::string &how) { (void)how; }
};
struct Type { Layout lay; Obj *(*make)(); };
static std::map<std::string, Type> &types() { static std::map<std::string, Type> m; return m; }
static std::vector<std::string> &type_order() { static std::vector<std::string> v; return v; }
struct RegType { RegType(const char *n, Layout l, Obj *(*mk)()) { Type t; t.lay = l; t.make = mk; types()[n] = t; type_order().push_back(n); } };
static void need_free(const std::string &how) { if (how != "free") throw std::runtime_error("how"); }

// ---- permutation state -------------------------------------------------------
struct PermObj : Obj {
    ascon_state_t *st;
    PermObj() : Obj(sizeof(ascon_state_t)) { st = (ascon_state_t *)buf; }
    bool op(const std::string &o, const Args &a) {
        unsigned off = (unsigned)arg(a, 0), n = (unsigned)arg(a, 1);
        if (o == "init") ascon_init(st);
        else if (o == "add") { In d(n); ascon_add_bytes(st, d.p(), off, n); }
        else if (o == "overwrite") { In d(n); ascon_overwrite_bytes(st, d.p(), off, n); }
        else if (o == "zero") ascon_overwrite_with_zeroes(st, off, n);
        else if (o == "extract") { Out d(n); ascon_extract_bytes(st, d.p(), off, n); }
        else if (o == "extractadd") { In i(n); Out d(n); ascon_extract_and_add_bytes(st, i.p(), d.p(), off, n); }
        else if (o == "extractoverwrite") { In i(n); Out d(n); ascon_extract_and_overwrite_bytes(st, i.p(), d.p(), off, n); }
        else if (o == "permute") ascon_permute(st, (uint8_t)arg(a, 0));
        else if (o == "copyfrom") { ascon_release(st); ascon_state_t t; ascon_init(&t); In d(40); ascon_overwrite_bytes(&t, d.p(), 0, 40); ascon_permute(&t, 0);
                                    ascon_copy(st, &t); ascon_free(&t); ascon_acquire(st); }
        else if (o == "copyto") { ascon_release(st); ascon_state_t t; ascon_init(&t); ascon_copy(&t, st); ascon_permute(&t, 6); ascon_free(&t); ascon_acquire(st); }
        else if (o == "release") ascon_release(st);
        else if (o == "acquire") ascon_acquire(st);
        else return false;
        return true;
    }
    void erase(const std::string &how) { need_free(how); ascon_free(st); }
};
static Obj *mk_perm() { return new PermObj; }
static RegType r_perm("perm", Layout{sizeof(ascon_state_t), {Field{"S", offsetof(ascon_state_t, S), sizeof(((ascon_state_t *)0)->S)}}}, mk_perm);

// ---- incremental AEAD ----------------------------------------------------------
#define AEAD_OBJ(NAME, ST, PFX, KLEN) \
struct NAME##Obj : Obj { \
    ST *st; NAME##Obj() : Obj(sizeof(ST)) { st = (ST *)buf; } \
    bool op(const std::string &o, const Args &a) { \
        if (o == "init" || o == "reinit") { In k(KLEN), n(16); \
            const unsigned char *kp = arg(a, 0) ? k.p() : 0; \
            const unsigned char *np = arg(a, 1) == 2 ? st->nonce : (arg(a, 1) ? n.p() : 0); \
            if (o == "init") { if (arg(a, 1) == 2) np = n.p(); PFX##_aead_init(st, np, kp); } else PFX##_aead_reinit(st, np, kp); } \
        else if (o == "start") { In ad(arg(a, 0)); PFX##_aead_start(st, ad.p(), arg(a, 0)); } \
        else if (o == "enc") { In m(arg(a, 0)); Out c(arg(a, 0)); PFX##_aead_encrypt_block(st, m.p(), c.p(), arg(a, 0)); } \
        else if (o == "dec") { In c(arg(a, 0)); Out m(arg(a, 0)); PFX##_aead_decrypt_block(st, c.p(), m.p(), arg(a, 0)); } \
        else if (o == "encfin") { Out t(16); PFX##_aead_encrypt_finalize(st, t.p()); } \
        else if (o == "decfin") { In bad(16); unsigned char tag[16]; memcpy(tag, bad.p(), 16); \
            if (arg(a, 0)) { ST tmp; memcpy(&tmp, st, sizeof(ST)); PFX##_aead_encrypt_finalize(&tmp, tag); PFX##_aead_free(&tmp); } \
            int r = PFX##_aead_decrypt_finalize(st, tag); if ((r == 0) != (arg(a, 0) != 0)) throw std::runtime_error("decfin result"); } \
        else return false; \
        return true; } \
    void erase(const std::string &how) { need_free(how); PFX##_aead_free(st); } \
}; \
static Obj *mk_##NAME() { return new NAME##Obj; } \
static RegType r_##NAME(#NAME, Layout{sizeof(ST), {F(ST, state), F(ST, key), F(ST, nonce), F(ST, posn)}}, mk_##NAME);
AEAD_OBJ(aead128, ascon128_state_t, ascon128, 16)
AEAD_OBJ(aead128a, ascon128a_state_t, ascon128a, 16)
AEAD_OBJ(aead80pq, ascon80pq_state_t, ascon80pq, 20)

// ---- XOF ---------------------------------------------------------------------
#define XOF_OBJ(NAME, ST, PFX) \
struct NAME##Obj : Obj { \
    ST *st; NAME##Obj() : Obj(sizeof(ST)) { st = (ST *)buf; } \
    void other(ST *t) { PFX##_init(t); In d(23); PFX##_absorb(t, d.p(), 23); } \
    bool op(const std::string &o, const Args &a) { \
        if (o == "init") PFX##_init(st); \
        else if (o == "initfixed") PFX##_init_fixed(st, arg(a, 0)); \
        else if (o == "reinit") PFX##_reinit(st); \
        else if (o == "reinitfixed") PFX##_reinit_fixed(st, arg(a, 0)); \
        else if (o == "initcustom" || o == "reinitcustom") { std::string nm = secname(arg(a, 0)); In c(arg(a, 1)); \
            const char *np = arg(a, 0) ? nm.c_str() : 0; \
            if (o == "initcustom") PFX##_init_custom(st, np, c.p(), arg(a, 1), arg(a, 2)); else PFX##_reinit_custom(st, np, c.p(), arg(a, 1), arg(a, 2)); } \
        else if (o == "absorb") { In d(arg(a, 0)); PFX##_absorb(st, d.p(), arg(a, 0)); } \
        else if (o == "squeeze") { Out d(arg(a, 0)); PFX##_squeeze(st, d.p(), arg(a, 0)); } \
        else if (o == "pad") PFX##_pad(st); \
        else if (o == "copyfrom") { ST t; other(&t); PFX##_copy(st, &t); PFX##_free(&t); } \
        else if (o == "copyto") { ST t; PFX##_copy(&t, st); Out d(9); PFX##_squeeze(&t, d.p(), 9); PFX##_free(&t); } \
        else return false; \
        return true; } \
    void erase(const std::string &how) { need_free(how); PFX##_free(st); } \
}; \
static Obj *mk_##NAME() { return new NAME##Obj; } \
static RegType r_##NAME(#NAME, Layout{sizeof(ST), {F(ST, state), F(ST, count), F(ST, mode)}}, mk_##NAME);
XOF_OBJ(xof, ascon_xof_state_t, ascon_xof)
XOF_OBJ(xofa, ascon_xofa_state_t, ascon_xofa)

#define HASH_OBJ(NAME, ST, PFX, HLEN) \
struct NAME##Obj : Obj { \
    ST *st; NAME##Obj() : Obj(sizeof(ST)) { st = (ST *)buf; } \
    bool op(const std::string &o, const Args &a) { \
        if (o == "init") PFX##_init(st); \
        else if (o == "reinit") PFX##_reinit(st); \
        else if (o == "update") { In d(arg(a, 0)); PFX##_update(st, d.p(), arg(a, 0)); } \
        else if (o == "finalize") { Out d(HLEN); PFX##_finalize(st, d.p()); } \
        else if (o == "copyfrom") { ST t; PFX##_init(&t); In d(23); PFX##_update(&t, d.p(), 23); PFX##_copy(st, &t); PFX##_free(&t); } \
        else if (o == "copyto") { ST t; PFX##_copy(&t, st); Out d(HLEN); PFX##_finalize(&t, d.p()); PFX##_free(&t); } \
        else return false; \
        return true; } \
    void erase(const std::string &how) { need_free(how); PFX##_free(st); } \
}; \
static Obj *mk_##NAME() { return new NAME##Obj; } \
static RegType r_##NAME(#NAME, Layout{sizeof(ST), {F(ST, xof.state), F(ST, xof.count), F(ST, xof.mode)}}, mk_##NAME);
HASH_OBJ(hash, ascon_hash_state_t, ascon_hash, ASCON_HASH_SIZE)
HASH_OBJ(hasha, ascon_hasha_state_t, ascon_hasha, ASCON_HASHA_SIZE)

struct PrfObj : Obj {
    ascon_prf_state_t *st; PrfObj() : Obj(sizeof(ascon_prf_state_t)) { st = (ascon_prf_state_t *)buf; }
    bool op(const std::string &o, const Args &a) {
        if (o == "init") { In k(16); ascon_prf_init(st, k.p()); }
        else if (o == "initfixed") { In k(16); ascon_prf_fixed_init(st, k.p(), arg(a, 0)); }
        else if (o == "reinit") { In k(16); ascon_prf_reinit(st, k.p()); }
        else if (o == "reinitfixed") { In k(16); ascon_prf_fixed_reinit(st, k.p(), arg(a, 0)); }
        else if (o == "absorb") { In d(arg(a, 0)); ascon_prf_absorb(st, d.p(), arg(a, 0)); }
        else if (o == "squeeze") { Out d(arg(a, 0)); ascon_prf_squeeze(st, d.p(), arg(a, 0)); }
        else return false;
        return true;
    }
    void erase(const std::string &how) { need_free(how); ascon_prf_free(st); }
};
static Obj *mk_prf() { return new PrfObj; }
static RegType r_prf("prf", Layout{sizeof(ascon_prf_state_t), {F(ascon_prf_state_t, state), F(ascon_prf_state_t, count), F(ascon_prf_state_t, mode)}}, mk_prf);

#define HMAC_OBJ(NAME, ST, PFX, HLEN) \
struct NAME##Obj : Obj { \
    ST *st; Bytes key; NAME##Obj() : Obj(sizeof(ST)) { st = (ST *)buf; } \
    bool op(const std::string &o, const Args &a) { \
        if (o == "init" || o == "reinit") { key = sec(arg(a, 0)); key.reserve(key.size() + 8); \
            if (o == "init") PFX##_init(st, key.data(), key.size()); else PFX##_reinit(st, key.data(), key.size()); } \
        else if (o == "update") { In d(arg(a, 0)); PFX##_update(st, d.p(), arg(a, 0)); } \
        else if (o == "finalize") { Out d(HLEN); PFX##_finalize(st, key.data(), key.size(), d.p()); } \
        else return false; \
        return true; } \
    void erase(const std::string &how) { need_free(how); PFX##_free(st); } \
}; \
static Obj *mk_##NAME() { return new NAME##Obj; } \
static RegType r_##NAME(#NAME, Layout{sizeof(ST), {F(ST, hash.xof.state), F(ST, hash.xof.count), F(ST, hash.xof.mode)}}, mk_##NAME);
HMAC_OBJ(hmac, ascon_hmac_state_t, ascon_hmac, ASCON_HMAC_SIZE)
HMAC_OBJ(hmaca, ascon_hmaca_state_t, ascon_hmaca, ASCON_HMACA_SIZE)

#define KMAC_OBJ(NAME, ST, PFX) \
struct NAME##Obj : Obj { \
    ST *st; NAME##Obj() : Obj(sizeof(ST)) { st = (ST *)buf; } \
    bool op(const std::string &o, const Args &a) { \
        if (o == "init" || o == "reinit") { In k(arg(a, 0)), c(arg(a, 1)); \
            if (o == "init") PFX##_init(st, k.p(), arg(a, 0), c.p(), arg(a, 1), arg(a, 2)); \
            else PFX##_reinit(st, k.p(), arg(a, 0), c.p(), arg(a, 1), arg(a, 2)); } \
        else if (o == "absorb") { In d(arg(a, 0)); PFX##_absorb(st, d.p(), arg(a, 0)); } \
        else if (o == "squeeze") { Out d(arg(a, 0)); PFX##_squeeze(st, d.p(), arg(a, 0)); } \
        else return false; \
        return true; } \
    void erase(const std::string &how) { need_free(how); PFX##_free(st); } \
}; \
static Obj *mk_##NAME() { return new NAME##Obj; } \
static RegType r_##NAME(#NAME, Layout{sizeof(ST), {F(ST, xof.state), F(ST, xof.count), F(ST, xof.mode)}}, mk_##NAME);
KMAC_OBJ(kmac, ascon_kmac_state_t, ascon_kmac)
KMAC_OBJ(kmaca, ascon_kmaca_state_t, ascon_kmaca)

#define KDF_OBJ(NAME, ST, PFX) \
struct NAME##Obj : Obj { \
    ST *st; NAME##Obj() : Obj(sizeof(ST)) { st = (ST *)buf; } \
    bool op(const std::string &o, const Args &a) { \
        if (o == "init" || o == "reinit") { In k(arg(a, 0)), c(arg(a, 1)); \
            if (o == "init") PFX##_init(st, k.p(), arg(a, 0), c.p(), arg(a, 1), arg(a, 2)); \
            else PFX##_reinit(st, k.p(), arg(a, 0), c.p(), arg(a, 1), arg(a, 2)); } \
        else if (o == "squeeze") { Out d(arg(a, 0)); PFX##_squeeze(st, d.p(), arg(a, 0)); } \
        else return false; \
        return true; } \
    void erase(const std::string &how) { need_free(how); PFX##_free(st); } \
}; \
static Obj *mk_##NAME() { return new NAME##Obj; } \
static RegType r_##NAME(#NAME, Layout{sizeof(ST), {F(ST, state.state), F(ST, state.count), F(ST, state.mode)}}, mk_##NAME);
KDF_OBJ(kdf, ascon_kdf_state_t, ascon_kdf)
KDF_OBJ(kdfa, ascon_kdfa_state_t, ascon_kdfa)

#define HKDF_OBJ(NAME, ST, PFX) \
struct NAME##Obj : Obj { \
    ST *st; NAME##Obj() : Obj(sizeof(ST)) { st = (ST *)buf; } \
    bool op(const std::string &o, const Args &a) { \
        if (o == "extract") { In k(arg(a, 0)), s(arg(a, 1)); PFX##_extract(st, k.p(), arg(a, 0), s.p(), arg(a, 1)); } \
        else if (o == "expand") { In i(arg(a, 0)); Out d(arg(a, 1)); PFX##_expand(st, i.p(), arg(a, 0), d.p(), arg(a, 1)); } \
        else return false; \
        return true; } \
    void erase(const std::string &how) { need_free(how); PFX##_free(st); } \
}; \
static Obj *mk_##NAME() { return new NAME##Obj; } \
static RegType r_##NAME(#NAME, Layout{sizeof(ST), {F(ST, prk), F(ST, out), F(ST, counter), F(ST, posn)}}, mk_##NAME);
HKDF_OBJ(hkdf, ascon_hkdf_state_t, ascon_hkdf)
HKDF_OBJ(hkdfa, ascon_hkdfa_state_t, ascon_hkdfa)

// ---- PRNG ----------------------------------------------------------------------
static unsigned char g_nv[64]; static int g_nv_present = 1;
static int nv_read(const ascon_storage_t *, size_t off, unsigned char *d, size_t n) { if (!g_nv_present) return -1; memcpy(d, g_nv + off, n); return (int)n; }
static int nv_write(const ascon_storage_t *, size_t off, const unsigned char *d, size_t n, int) { memcpy(g_nv + off, d, n); return (int)n; }
struct RandomObj : Obj {
    ascon_random_state_t *st; RandomObj() : Obj(sizeof(ascon_random_state_t)) { st = (ascon_random_state_t *)buf; }
    bool op(const std::string &o, const Args &a) {
        ascon_storage_t nv; memset(&nv, 0, sizeof(nv)); nv.page_size = 32; nv.size = 32; nv.read = nv_read; nv.write = nv_write;
        if (o == "init") ascon_random_init(st);
        else if (o == "fetch") { Out d(arg(a, 0)); ascon_random_fetch(st, d.p(), arg(a, 0)); }
        else if (o == "reseed") ascon_random_reseed(st);
        else if (o == "feed") { In d(arg(a, 0)); ascon_random_feed(st, d.p(), arg(a, 0)); }
        else if (o == "save") ascon_random_save_seed(st, &nv);
        else if (o == "load") { In d(32); memcpy(g_nv, d.p(), 32); g_nv_present = arg(a, 0) != 0; ascon_random_load_seed(st, &nv); }
        else return false;
        return true;
    }
    void erase(const std::string &how) { need_free(how); ascon_random_free(st); }
};
static Obj *mk_random() { return new RandomObj; }
static RegType r_random("random", Layout{sizeof(ascon_random_state_t), {F(ascon_random_state_t, xof.state), F(ascon_random_state_t, xof.count),
    F(ascon_random_state_t, xof.mode), F(ascon_random_state_t, counter), F(ascon_random_state_t, reserved)}}, mk_random);

// ---- ISAP pre-computed keys -------------------------------------------------------
#define ISAP_OBJ(NAME, ST, PFX, KLEN) \
struct NAME##Obj : Obj { \
    ST *st; NAME##Obj() : Obj(sizeof(ST)) { st = (ST *)buf; } \
    bool op(const std::string &o, const Args &a) { \
        if (o == "init") { In k(KLEN); PFX##_aead_init(st, k.p()); } \
        else if (o == "load") { In k(80); PFX##_aead_load_key(st, k.p()); } \
        else if (o == "save") { Out k(80); PFX##_aead_save_key(st, k.p()); } \
        else if (o == "encrypt" || o == "decrypt") { size_t ml = arg(a, 0), al = arg(a, 1), cl = 0, pl = 0; In m(ml), ad(al), n(16); Out c(ml + 16), p(ml + 16); \
            PFX##_aead_encrypt(c.p(), &cl, m.p(), ml, ad.p(), al, n.p(), st); \
            if (o == "decrypt") { if (!arg(a, 2)) c.p()[cl - 1] ^= 1; int r = PFX##_aead_decrypt(p.p(), &pl, c.p(), cl, ad.p(), al, n.p(), st); \
                if ((r >= 0) != (arg(a, 2) != 0)) throw std::runtime_error("isap decrypt result"); } } \
        else return false; \
        return true; } \
    void erase(const std::string &how) { need_free(how); PFX##_aead_free(st); } \
}; \
static Obj *mk_##NAME() { return new NAME##Obj; } \
static RegType r_##NAME(#NAME, Layout{sizeof(ST), {F(ST, ke), F(ST, ka)}}, mk_##NAME);
ISAP_OBJ(isap128, ascon128_isap_aead_key_t, ascon128_isap, 16)
ISAP_OBJ(isap128a, ascon128a_isap_aead_key_t, ascon128a_isap, 16)
ISAP_OBJ(isap80pq, ascon80pq_isap_aead_key_t, ascon80pq_isap, 20)

// ---- masked keys and masked state ----------------------------------------------------
#define MKEY_OBJ(NAME, ST, PFX, KLEN, AE) \
struct NAME##Obj : Obj { \
    ST *st; NAME##Obj() : Obj(sizeof(ST)) { st = (ST *)buf; } \
    bool op(const std::string &o, const Args &a) { \
        if (o == "init") { In k(KLEN); PFX##_init(st, k.p()); } \
        else if (o == "randomize") PFX##_randomize(st); \
        else if (o == "extract") { Out k(KLEN); PFX##_extract(st, k.p()); } \
        else if (o == "encrypt" || o == "decrypt") { size_t ml = arg(a, 0), al = arg(a, 1), cl = 0, pl = 0; In m(ml), ad(al), n(16); Out c(ml + 16), p(ml + 16); \
            AE##_masked_aead_encrypt(c.p(), &cl, m.p(), ml, ad.p(), al, n.p(), st); \
            if (o == "decrypt") { if (!arg(a, 2)) c.p()[cl - 1] ^= 1; int r = AE##_masked_aead_decrypt(p.p(), &pl, c.p(), cl, ad.p(), al, n.p(), st); \
                if ((r >= 0) != (arg(a, 2) != 0)) throw std::runtime_error("masked decrypt result"); } } \
        else return false; \
        return true; } \
    void erase(const std::string &how) { need_free(how); PFX##_free(st); } \
}; \
static Obj *mk_##NAME() { return new NAME##Obj; } \
static RegType r_##NAME(#NAME, Layout{sizeof(ST), {Field{"k", offsetof(ST, k), sizeof(((ST *)0)->k)}}}, mk_##NAME);
MKEY_OBJ(mkey128, ascon_masked_key_128_t, ascon_masked_key_128, 16, ascon128a)
MKEY_OBJ(mkey160, ascon_masked_key_160_t, ascon_masked_key_160, 20, ascon80pq)

struct MstateObj : Obj {
    ascon_masked_state_t *st; MstateObj() : Obj(sizeof(ascon_masked_state_t)) { st = (ascon_masked_state_t *)buf; }
    bool op(const std::string &o, const Args &a) {
        ascon_trng_state_t trng; ascon_trng_init(&trng);
        uint64_t preserve[4]; for (int i = 0; i < 4; ++i) preserve[i] = ascon_trng_generate_64(&trng);
        if (o == "init") ascon_masked_state_init(st);
        else if (o == "fromx1") { ascon_state_t t; ascon_init(&t); In d(40); ascon_overwrite_bytes(&t, d.p(), 0, 40); ascon_release(&t);
            long sh = arg(a, 0);
            if (sh == 2) ascon_x2_copy_from_x1(st, &t, &trng);
#if ASCON_MASKED_MAX_SHARES >= 3
            else if (sh == 3) ascon_x3_copy_from_x1(st, &t, &trng);
#endif
#if ASCON_MASKED_MAX_SHARES >= 4
            else if (sh == 4) ascon_x4_copy_from_x1(st, &t, &trng);
#endif
            else throw std::runtime_error("shares");
            ascon_acquire(&t); ascon_free(&t); }
        else if (o == "randomize") { long sh = arg(a, 0);
            if (sh == 2) ascon_x2_randomize(st, &trng);
#if ASCON_MASKED_MAX_SHARES >= 3
            else if (sh == 3) ascon_x3_randomize(st, &trng);
#endif
#if ASCON_MASKED_MAX_SHARES >= 4
            else if (sh == 4) ascon_x4_randomize(st, &trng);
#endif
            else throw std::runtime_error("shares"); }
        else if (o == "permute") { long sh = arg(a, 1);
            if (sh == 2) ascon_x2_permute(st, (uint8_t)arg(a, 0), preserve);
#if ASCON_MASKED_MAX_SHARES >= 3
            else if (sh == 3) ascon_x3_permute(st, (uint8_t)arg(a, 0), preserve);
#endif
#if ASCON_MASKED_MAX_SHARES >= 4
            else if (sh == 4) ascon_x4_permute(st, (uint8_t)arg(a, 0), preserve);
#endif
            else throw std::runtime_error("shares"); }
        else if (o == "tox1") { ascon_state_t t; long sh = arg(a, 0);
            if (sh == 2) ascon_x2_copy_to_x1(&t, st);
#if ASCON_MASKED_MAX_SHARES >= 3
            else if (sh == 3) ascon_x3_copy_to_x1(&t, st);
#endif
#if ASCON_MASKED_MAX_SHARES >= 4
            else if (sh == 4) ascon_x4_copy_to_x1(&t, st);
#endif
            else throw std::runtime_error("shares");
            ascon_free(&t); }
        else { ascon_trng_free(&trng); return false; }
        ascon_trng_free(&trng);
        return true;
    }
    void erase(const std::string &how) { need_free(how); ascon_masked_state_free(st); }
};
static Obj *mk_mstate() { return new MstateObj; }
static RegType r_mstate("mstate", Layout{sizeof(ascon_masked_state_t), {Field{"M", offsetof(ascon_masked_state_t, M), sizeof(((ascon_masked_state_t *)0)->M)}}}, mk_mstate);

// ---- C++ cipher classes ------------------------------------------------------------
// A twin object receives the same mutating calls; it produces the valid
// ciphertexts for the "decrypt ... valid" operation and is destroyed at the end.
enum CppKind { K_PLAIN, K_ISAP, K_MASKED };
template <class T> struct Extra { static void savekey(T *) { throw std::runtime_error("savekey"); } static void randomize(T *) { throw std::runtime_error("randomize"); }
                                  static T *ctor(void *b, long v, const unsigned char *k, size_t klen, const unsigned char *saved) {
                                      (void)klen; (void)saved; if (v == 0) return new (b) T(); if (v == 1) return new (b) T(k); return new (b) T((const unsigned char *)0); } };
#define ISAP_EXTRA(T) template <> struct Extra<T> { \
    static void savekey(T *p) { unsigned char k[80]; p->save_key(k); } static void randomize(T *) { throw std::runtime_error("randomize"); } \
    static T *ctor(void *b, long v, const unsigned char *k, size_t klen, const unsigned char *saved) { \
        if (v == 0) return new (b) T(); if (v == 1) return new (b) T(k, klen); if (v == 3) return new (b) T(saved, 80); return new (b) T(k, 7); } };
ISAP_EXTRA(ascon::isap128) ISAP_EXTRA(ascon::isap128a) ISAP_EXTRA(ascon::isap80pq)
#define MASKED_EXTRA(T) template <> struct Extra<T> { \
    static void savekey(T *) { throw std::runtime_error("savekey"); } static void randomize(T *p) { p->randomize_key(); } \
    static T *ctor(void *b, long v, const unsigned char *k, size_t klen, const unsigned char *saved) { \
        (void)klen; (void)saved; if (v == 0) return new (b) T(); if (v == 1) return new (b) T(k); return new (b) T((const unsigned char *)0); } };
MASKED_EXTRA(ascon::aead128_masked) MASKED_EXTRA(ascon::aead128a_masked) MASKED_EXTRA(ascon::aead80pq_masked)

template <class T, size_t KLEN> struct CppObj : Obj {
    T *p, *twin; unsigned char *tbuf;
    CppObj() : Obj(sizeof(T)), p(0), twin(0) { tbuf = (unsigned char *)aligned_alloc(16, (sizeof(T) + 31) / 16 * 16); memset(tbuf, 0xA5, sizeof(T)); }
    ~CppObj() { if (twin) twin->~T(); free(tbuf); }
    bool op(const std::string &o, const Args &a) {
        if (o == "ctor") { if (p) throw std::runtime_error("ctor twice"); In k(KLEN), s(80);
            p = Extra<T>::ctor(buf, arg(a, 0), k.p(), KLEN, s.p()); twin = Extra<T>::ctor(tbuf, arg(a, 0), k.p(), KLEN, s.p()); return true; }
        if (!p) throw std::runtime_error("no object");
        ascon::aead *q = p, *tq = twin;
        if (o == "setkey") { size_t len = arg(a, 0); In k(len > 80 ? len : 80); bool r1 = q->set_key(k.p(), len), r2 = tq->set_key(k.p(), len); if (r1 != r2) throw std::runtime_error("setkey"); }
        else if (o == "setnonce") { In n(arg(a, 0)); q->set_nonce(n.p(), arg(a, 0)); tq->set_nonce(n.p(), arg(a, 0)); }
        else if (o == "setcounter") { uint64_t c = g_sec.next(); q->set_counter(c); tq->set_counter(c); }
        else if (o == "encrypt") { size_t ml = arg(a, 0), al = arg(a, 1); In m(ml), ad(al); Out c(ml + 16), c2(ml + 16);
            int r = q->encrypt(c.p(), m.p(), ml, ad.p(), al); tq->encrypt(c2.p(), m.p(), ml, ad.p(), al); if (r != (int)ml + 16) throw std::runtime_error("encrypt length"); }
        else if (o == "decrypt") { size_t ml = arg(a, 0), al = arg(a, 1); In m(ml), ad(al); Out c(ml + 16), out(ml + 16);
            if (arg(a, 2)) { tq->encrypt(c.p(), m.p(), ml, ad.p(), al); }
            else { In junk(ml + 16); memcpy(c.p(), junk.p(), ml + 16); }
            int r = q->decrypt(out.p(), c.p(), ml + 16, ad.p(), al);
            if ((r >= 0) != (arg(a, 2) != 0)) throw std::runtime_error("cpp decrypt result"); }
        else if (o == "clear") { q->clear(); tq->clear(); }
        else if (o == "savekey") { Extra<T>::savekey(p); }
        else if (o == "randomize") { Extra<T>::randomize(p); Extra<T>::randomize(twin); }
        else return false;
        return true;
    }
    void erase(const std::string &how) {
        if (!p) throw std::runtime_error("no object");
        if (how == "dtor") {
            // alternately as the concrete type and through the abstract interface type (what delete / unique_ptr<ascon::aead> do):
            // the wiping lives in the derived destructors and must be reached by virtual dispatch
            static unsigned turn = 0;
            if (turn++ & 1) { ascon::aead *base = p; base->~aead(); } else p->~T();
            p = 0;
        }
        else if (how == "clear") p->clear();
        else throw std::runtime_error("how");
        barrier(buf);
    }
    void after_dump(const std::string &how) { if (how == "clear" && p) { p->~T(); p = 0; } }
};
#define VPTR Field{"vptr", 0, sizeof(void *)}
#define CPP_AEAD(NAME, T, KLEN) \
static Obj *mk_##NAME() { return new CppObj<T, KLEN>; } \
static RegType r_##NAME(#NAME, Layout{sizeof(T), {VPTR, F(T, m_state.key), F(T, m_state.nonce)}}, mk_##NAME);
CPP_AEAD(cpp_aead128, ascon::aead128, 16) CPP_AEAD(cpp_aead128a, ascon::aead128a, 16) CPP_AEAD(cpp_aead80pq, ascon::aead80pq, 20)
CPP_AEAD(cpp_siv128, ascon::siv128, 16) CPP_AEAD(cpp_siv128a, ascon::siv128a, 16) CPP_AEAD(cpp_siv80pq, ascon::siv80pq, 20)
#define CPP_ISAP(NAME, T, KLEN) \
static Obj *mk_##NAME() { return new CppObj<T, KLEN>; } \
static RegType r_##NAME(#NAME, Layout{sizeof(T), {VPTR, F(T, m_key.ke), F(T, m_key.ka), F(T, m_nonce)}}, mk_##NAME);
CPP_ISAP(cpp_isap128, ascon::isap128, 16) CPP_ISAP(cpp_isap128a, ascon::isap128a, 16) CPP_ISAP(cpp_isap80pq, ascon::isap80pq, 20)
#define CPP_MASKED(NAME, T, KLEN) \
static Obj *mk_##NAME() { return new CppObj<T, KLEN>; } \
static RegType r_##NAME(#NAME, Layout{sizeof(T), {VPTR, F(T, m_key.k), F(T, m_nonce)}}, mk_##NAME);
CPP_MASKED(cpp_aead128_masked, ascon::aead128_masked, 16) CPP_MASKED(cpp_aead128a_masked, ascon::aead128a_masked, 16)
CPP_MASKED(cpp_aead80pq_masked, ascon::aead80pq_masked, 20)

// ---- C++ hash / xof classes -----------------------------------------------------------
template <class T> struct HashOps {   // ascon::hash, ascon::hasha
    static T *custom(void *b, const char *, const unsigned char *, size_t) { return new (b) T(); }
    static void squeeze(T *p, size_t n) { (void)n; unsigned char d[32]; p->finalize(d); }
    static void update(T *p, const unsigned char *d, size_t n) { p->update(d, n); }
    static void finalize(T *p) { unsigned char d[32]; p->finalize(d); }
    static void pad(T *) { }
};
template <class T> struct XofOps {    // ascon::xof_with_output_length<N>, xofa_with_output_length<N>
    static T *custom(void *b, const char *name, const unsigned char *c, size_t n) { return new (b) T(name, c, n); }
    static void squeeze(T *p, size_t n) { Out d(n); p->squeeze(d.p(), n); }
    static void update(T *p, const unsigned char *d, size_t n) { p->absorb(d, n); }
    static void finalize(T *p) { Out d(32); p->squeeze(d.p(), 32); }
    static void pad(T *p) { p->pad(); }
};
template <class T, class OPS> struct CppHashObj : Obj {
    T *p; CppHashObj() : Obj(sizeof(T)), p(0) { }
    T *other(unsigned char *b) { T *t = new (b) T(); In d(23); OPS::update(t, d.p(), 23); return t; }
    bool op(const std::string &o, const Args &a) {
        alignas(16) unsigned char tb[sizeof(T)];
        if (o == "ctor") { if (p) throw std::runtime_error("ctor twice");
            if (arg(a, 0) == 0) p = new (buf) T();
            else if (arg(a, 0) == 1) { T *t = other(tb); p = new (buf) T(*t); t->~T(); }
            else { std::string nm = secname(5); In c(11); p = OPS::custom(buf, nm.c_str(), c.p(), 11); }
            return true; }
        if (!p) throw std::runtime_error("no object");
        if (o == "assign") { T *t = other(tb); *p = *t; t->~T(); }
        else if (o == "reset") p->reset();
        else if (o == "update") { In d(arg(a, 0)); OPS::update(p, d.p(), arg(a, 0)); }
        else if (o == "finalize") OPS::finalize(p);
        else if (o == "squeeze") OPS::squeeze(p, arg(a, 0));
        else if (o == "pad") OPS::pad(p);
        else return false;
        return true;
    }
    void erase(const std::string &how) { if (!p || how != "dtor") throw std::runtime_error("how"); p->~T(); p = 0; barrier(buf); }
};
typedef ascon::xof_with_output_length<0> cxof0; typedef ascon::xof_with_output_length<32> cxof32; typedef ascon::xof_with_output_length<64> cxof64;
typedef ascon::xofa_with_output_length<0> cxofa0; typedef ascon::xofa_with_output_length<32> cxofa32; typedef ascon::xofa_with_output_length<64> cxofa64;
#define CPP_HASH(NAME, T) \
static Obj *mk_##NAME() { return new CppHashObj<T, HashOps<T> >; } \
static RegType r_##NAME(#NAME, Layout{sizeof(T), {F(T, m_state.xof.state), F(T, m_state.xof.count), F(T, m_state.xof.mode)}}, mk_##NAME);
CPP_HASH(cpp_hash, ascon::hash) CPP_HASH(cpp_hasha, ascon::hasha)
#define CPP_XOF(NAME, T) \
static Obj *mk_##NAME() { return new CppHashObj<T, XofOps<T> >; } \
static RegType r_##NAME(#NAME, Layout{sizeof(T), {F(T, m_state.state), F(T, m_state.count), F(T, m_state.mode)}}, mk_##NAME);
CPP_XOF(cpp_xof, cxof0) CPP_XOF(cpp_xof32, cxof32) CPP_XOF(cpp_xof64, cxof64)
CPP_XOF(cpp_xofa, cxofa0) CPP_XOF(cpp_xofa32, cxofa32) CPP_XOF(cpp_xofa64, cxofa64)

// ---- running a history ---------------------------------------------------------------
struct Parsed { std::string name; Args args; };
struct RunOut { Bytes before, after; std::vector<std::set<std::string> > changed; };

static std::string classify(const Layout &l, size_t i) {
    for (size_t k = 0; k < l.f.size(); ++k) if (i >= l.f[k].off && i < l.f[k].off + l.f[k].len) return l.f[k].name;
    return "PAD@" + std::to_string(i);
}

static RunOut run_once(const Type &ty, const std::string &how, uint64_t seed, const std::vector<Parsed> &ops) {
    g_sec.seed(seed); g_tape.seed(seed ^ 0x5bd1e995a5a5a5a5ULL); g_nv_present = 1; memset(g_nv, 0, sizeof(g_nv));
    RunOut r; Obj *o = ty.make();
    if (o->n != ty.lay.size) throw std::runtime_error("size");
    Bytes snap(o->n);
    for (size_t k = 0; k < ops.size(); ++k) {
        memcpy(snap.data(), o->buf, o->n);
        if (!o->op(ops[k].name, ops[k].args)) { delete o; throw std::runtime_error("unknown op " + ops[k].name); }
        barrier(o->buf);
        std::set<std::string> ch;
        for (size_t i = 0; i < o->n; ++i) if (snap[i] != o->buf[i]) ch.insert(classify(ty.lay, i));
        r.changed.push_back(ch);
    }
    r.before.assign(o->buf, o->buf + o->n);
    o->erase(how);
    barrier(o->buf);
    r.after.assign((const volatile unsigned char *)o->buf, (const volatile unsigned char *)o->buf + o->n);
    o->after_dump(how);
    delete o;
    return r;
}

static std::string do_history(const std::vector<std::string> &t) {
    if (t.size() < 5) return "ERR usage";
    std::map<std::string, Type>::iterator it = types().find(t[1]);
    if (it == types().end()) return "ERR notype";
    std::vector<Parsed> ops;
    for (size_t i = 5; i < t.size(); ++i) {
        Parsed p; std::istringstream is(t[i]); std::string w; bool first = true;
        while (std::getline(is, w, ':')) { if (first) { p.name = w; first = false; } else p.args.push_back(atol(w.c_str())); }
        ops.push_back(p);
    }
    RunOut a = run_once(it->second, t[2], strtoull(t[3].c_str(), 0, 10), ops);
    RunOut b = run_once(it->second, t[2], strtoull(t[4].c_str(), 0, 10), ops);
    size_t d = 0; for (size_t i = 0; i < a.before.size(); ++i) if (a.before[i] != b.before[i]) ++d;
    std::string w;
    for (size_t k = 0; k < ops.size(); ++k) {
        std::set<std::string> u = a.changed[k]; u.insert(b.changed[k].begin(), b.changed[k].end());
        if (k) w += ";";
        bool f = true; for (std::set<std::string>::iterator s = u.begin(); s != u.end(); ++s) { if (!f) w += ","; w += *s; f = false; }
    }
    if (w.empty()) w = "-";
    return "OK size=" + std::to_string(a.after.size()) + " A=" + hex(a.after.data(), a.after.size()) + " B=" + hex(b.after.data(), b.after.size()) +
           " D=" + std::to_string(d) + " W=" + w;
}

static std::string do_z(const std::string &ty) {
    static const unsigned char zero[32] = {0};
    unsigned char out[80];
    if (ty == "cpp_isap128") { ascon128_isap_aead_key_t k; ascon128_isap_aead_init(&k, zero); memcpy(out, &k, 80); ascon128_isap_aead_free(&k); }
    else if (ty == "cpp_isap128a") { ascon128a_isap_aead_key_t k; ascon128a_isap_aead_init(&k, zero); memcpy(out, &k, 80); ascon128a_isap_aead_free(&k); }
    else if (ty == "cpp_isap80pq") { ascon80pq_isap_aead_key_t k; ascon80pq_isap_aead_init(&k, zero); memcpy(out, &k, 80); ascon80pq_isap_aead_free(&k); }
    else return "ERR notype";
    return hex(out, 80);
}

int main() {
    std::string line;
    while (std::getline(std::cin, line)) {
        std::istringstream is(line); std::vector<std::string> t; std::string w;
        while (is >> w) t.push_back(w);
        if (t.empty()) continue;
        std::string r;
        try {
            if (t[0] == "LAYOUT") {
                for (size_t i = 0; i < type_order().size(); ++i) {
                    const Layout &l = types()[type_order()[i]].lay;
                    r += "LAYOUT " + type_order()[i] + " size=" + std::to_string(l.size);
                    for (size_t k = 0; k < l.f.size(); ++k) r += " " + l.f[k].name + ":" + std::to_string(l.f[k].off) + ":" + std::to_string(l.f[k].len);
                    r += "\n";
                }
                r += "END";
            } else if (t[0] == "Z" && t.size() == 2) r = do_z(t[1]);
            else if (t[0] == "H") r = do_history(t);
            else r = "ERR request";
        } catch (std::exception &e) { r = std::string("ERR ") + e.what(); }
        std::cout << r << "\n" << std::flush;
    }
    return 0;
}
