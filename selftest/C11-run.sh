#!/bin/sh
# C11 self-test: each seeded break compiles, passes the repository's own 114 tests,
# and is caught by `./check C11` with a replay.  Usage: selftest/C11-run.sh [patch ...]
# (default: all three).  Scratch copies live under /tmp/c11-selftest and are removed.
V="$(cd "$(dirname "$0")/.." && pwd)"
S=/tmp/c11-selftest
[ $# -eq 0 ] && set -- "$V"/selftest/C11-check-tag-early-exit.patch "$V"/selftest/C11-prf-key-dependent-branch.patch "$V"/selftest/C11-c64-permute-table-lookup.patch
rc=0
for p in "$@"; do
    case "$p" in /*) ;; *) p="$PWD/$p";; esac
    n=$(basename "$p" .patch)
    rm -rf "$S/$n"; mkdir -p "$S"; cp -r "${VERIF_REPO:-/repo}" "$S/$n"; rm -rf "$S/$n/_build"
    (cd "$S/$n" && patch -p1 -s < "$p") || { echo "$n: patch does not apply"; rc=1; continue; }
    extra=""; case "$n" in *c64*) extra="-DBACKEND_C64=ON";; esac
    (cd "$S/$n" && cmake -G Ninja -S . -B _b $extra >/dev/null 2>&1 && cmake --build _b >/dev/null 2>&1 && ctest --test-dir _b -j8 2>&1 | grep -E "tests (passed|failed)")
    rm -rf "$S/$n/_b"
    rm -f "$V"/replays/C11-*.json
    out=$(VERIF_REPO="$S/$n" "$V/check" C11 --tier quick 2>&1)
    echo "$out" | grep -E "^VIOLATION|^C11 quick" | cut -c1-200 | head -8
    if echo "$out" | grep -q "^VIOLATION property=C11 replay=.*leak-"; then echo "$n: CAUGHT (memcheck replay)"; 
    elif echo "$out" | grep -q "^VIOLATION property=C11"; then echo "$n: CAUGHT"; else echo "$n: MISSED"; rc=1; fi
    for f in "$V"/replays/C11-leak-*.json "$V"/replays/C11-ct-stuck_*.json; do [ -f "$f" ] && cp "$f" "$V/selftest/$n.$(basename "$f" .json | sed 's/^C11-//').replay.json" && break; done
    rm -f "$V"/replays/C11-*.json
    rm -rf "$S/$n"
done
rmdir "$S" 2>/dev/null
exit $rc
