#!/usr/bin/env python3
"""Seeded-break self-test of the MAX_SHARES = 2, 3 / direct-XOR additions to C10 (tools/kern_masked_max.py,
tools/kern_mword_max.py, Props/Properties_C10_maxshares*.v): applies each selftest/C10-max-*.patch to a fresh clone of the
repository (default /repo) in a scratch directory, re-runs the two translators against it (plus the MAX_SHARES = 4
translators whose obligations must keep checking), rebuilds the obligation files and verifies that the expected obligation no
longer checks while its MAX_SHARES = 4 sibling still does.

  C10-max-a-x2-asm-max3-body-rotation.patch            rorq $6 -> rorq $5 in the `#elif ASCON_MASKED_MAX_SHARES >= 3` body of
                                                       ascon-x2-asm-x86-64.S only (the >= 4 and >= 2 bodies are untouched; the default
                                                       build and its 114 tests never assemble this body)
  C10-max-b-directxor-x3-copy-to-x1-drops-share.patch  the ASCON_BACKEND_DIRECT_XOR body of ascon_x3_copy_to_x1 stores with the
                                                       2-share routine (share 2 dropped); only directxor/generic builds compile it
  C10-max-c-key160-init-no-memset-max3.patch           the `#if ASCON_MASKED_MAX_SHARES < 4  memset(masked, 0, ...)` of
                                                       ascon_masked_key_160_init removed: bytes 8*MAX..31 of each key word stay
                                                       uninitialised (the obligation is then not translatable: MISSING + the pinned
                                                       coverage count of Properties_C10_maxshares.v fails)
With --ctest the mutated tree is also built in the default configuration and its own test suite is run.
usage: selftest/C10-maxshares-selftest.py [--ctest] [repo]"""
import os, sys, subprocess, tempfile, shutil, json, time
V = os.path.dirname(os.path.dirname(os.path.abspath(__file__)))
sys.path.insert(0, os.path.join(V, "lib"))
import common

CASES = [
    # patch, targets expected to FAIL, targets expected to still check, expected translator finding (json file, key)
    ("C10-max-a-x2-asm-max3-body-rotation.patch", ["Gen/MaskedObl_mx2_x86_max3.vo", "Props/Properties_C10_maxshares_x86.vo"],
     ["Gen/MaskedObl_mx2_x86.vo", "Gen/MaskedObl_mx2_x86_max2.vo", "Gen/MaskedObl_mx3_x86_max3.vo", "Gen/MaskedObl_mx2_c64_max3.vo"], ("masked_max.json", "mx2_x86_max3")),
    ("C10-max-b-directxor-x3-copy-to-x1-drops-share.patch", ["Gen/MW2_dx_x1.vo", "Props/Properties_C10_maxshares.vo"],
     ["Gen/MW2_c64_x1_3.vo", "Gen/MW2_max3_c64_st.vo"], ("mword_max.json", "dx_x1_x3_copy_to_x1")),
    ("C10-max-c-key160-init-no-memset-max3.patch", ["Props/Properties_C10_maxshares.vo"],
     ["Gen/MW2_max3_c64_tk.vo", "Gen/MWordObl.vo"], ("mword_max.json", "max3_c64_key_key_160_init_ks3")),
]
TOOLS = ["kern_masked.py", "kern_masked_max.py", "kern_mword.py", "kern_mword2.py", "kern_mword_max.py"]
ALL = ["Props/Properties_C10_maxshares.vo", "Props/Properties_C10_maxshares_x86.vo", "Props/Properties_C10_maxshares_c32.vo", "Props/Properties_C10.vo", "Props/Properties_C10_words.vo"]


def translate(repo):
    out = ""
    for t in TOOLS:
        out += subprocess.run(["python3", os.path.join(V, "tools", t), repo], stdout=subprocess.PIPE, stderr=subprocess.STDOUT).stdout.decode()
    return out


def ctest(repo, td):
    b = os.path.join(td, "build")
    shutil.rmtree(b, ignore_errors=True)
    subprocess.run(["cmake", "-G", "Ninja", "-S", repo, "-B", b], stdout=subprocess.PIPE, stderr=subprocess.STDOUT)
    if subprocess.run(["cmake", "--build", b], stdout=subprocess.PIPE, stderr=subprocess.STDOUT).returncode:
        return "build failed"
    r = subprocess.run(["ctest", "--test-dir", b, "-j16"], stdout=subprocess.PIPE, stderr=subprocess.STDOUT)
    last = [l for l in r.stdout.decode().split("\n") if "tests passed" in l or "tests failed" in l]
    return last[-1].strip() if last else "ctest rc=%d" % r.returncode


def main():
    args = [a for a in sys.argv[1:] if not a.startswith("--")]
    repo = args[0] if args else "/repo"
    rc = 0
    td = tempfile.mkdtemp(prefix="c10max-selftest-")
    try:
        with common.Lock("prove"):
            try:
                for patch, bad, good, (jf, key) in CASES:
                    r = os.path.join(td, "r")
                    shutil.rmtree(r, ignore_errors=True)
                    subprocess.run(["git", "clone", "-q", repo, r], check=True)
                    if subprocess.run(["git", "apply", os.path.join(V, "selftest", patch)], cwd=r).returncode:
                        print("FAIL %s: does not apply" % patch); rc = 1; continue
                    t0 = time.time()
                    out = translate(r)
                    notes = [l for l in out.split("\n") if l.startswith(("MISSING", "NOTE"))]
                    rep = json.load(open(os.path.join(V, "build", "kern", jf)))
                    found = key in rep and not rep[key].get("concrete_ok")
                    for t in bad + good:
                        if os.path.exists(os.path.join(common.COQ, t)):
                            os.remove(os.path.join(common.COQ, t))
                    ok, log = common.coq_make(bad + good)
                    res = "ok"
                    for t in bad:
                        if ok.get(t):
                            res = "FAIL: %s still checks" % t; rc = 1
                    for t in good:
                        if not ok.get(t):
                            res = "FAIL: %s no longer checks (collateral)" % t; rc = 1
                    if not found:
                        res = "FAIL: the translator reports no concrete finding for %s in build/kern/%s" % (key, jf); rc = 1
                    line = "%s %s: rejected targets %s; still checking %s; translator finding %s: %s; notes: %d (%.0f s)" % (
                        "done" if res == "ok" else res, patch, [t for t in bad if not ok.get(t)], [t for t in good if ok.get(t)], key,
                        json.dumps((rep.get(key) or {}).get("counterexample") or (rep.get(key) or {}).get("error"))[:160], len(notes), time.time() - t0)
                    if "--ctest" in sys.argv:
                        line += "; repository's own tests on the mutated tree (default build): %s" % ctest(r, td)
                    print(line, flush=True)
            finally:
                translate(repo)
                for t in ALL:
                    if os.path.exists(os.path.join(common.COQ, t)):
                        os.remove(os.path.join(common.COQ, t))
                ok, log = common.coq_make(ALL)
                if not all(ok.values()):
                    print("FAIL: obligations do not check on the unchanged tree after restoring: %s" % [t for t, v in ok.items() if not v]); rc = 1
    finally:
        shutil.rmtree(td, ignore_errors=True)
    if rc == 0:
        print("C10 MAX_SHARES / direct-XOR self-test: all seeded breaks rejected as expected, MAX_SHARES = 4 siblings unaffected")
    return rc


if __name__ == "__main__":
    sys.exit(main())
