#!/bin/sh
# Self-test for the audit-2 gaps 6 (C11) and 7 (C12): two seeded breaks that are functionally invisible
# (they build, the repository's own 114 tests pass) and that the checks missed before these gaps were closed.
#
#   C11-isap-load-key-branch-on-key.patch        ascon*_isap_aead_load_key scans the secret 80-byte key image with an
#                                                early-exit loop ("blank image" shortcut).  Must be rejected by BOTH C11
#                                                layers: a ct-stuck finding (tools/kern_ct.py: data-dependent branch in
#                                                <alg>_isap_aead_load_key, theorem C11_kernels / C11_key_lifecycle_kernels no
#                                                longer checks) and a memcheck leak-branch finding (harness/x_ctgrind.cpp op ISAPKEY).
#   C12-aead80pq-init-reads-24-key-bytes.patch   ascon80pq_aead_reinit (and so _init) copies the 20-byte key through a 24-byte
#                                                temporary: a 4-byte over-read of the caller's key.  Must be reported by the
#                                                sanitised replay of the AI lines (harness/h_aead.cpp now passes keys as exact
#                                                hx.h Buf blocks; before, the key sat in a std::vector of capacity 32), by
#                                                harness/x_c12.c group inc-modes (ASan and guard pages) and by the kernel-bounds
#                                                table (kernel-oob:ascon80pq_aead_init@aead-inc/...).
#
# Usage: selftest/C11C12-gap67-run.sh [C11|C12]     (default: both; scratch copies under ${TMPDIR:-/tmp}/gap67-selftest, removed)
V="$(cd "$(dirname "$0")/.." && pwd)"
S="${TMPDIR:-/tmp}/gap67-selftest"
which="${1:-C11 C12}"
rc=0
for id in $which; do
    case "$id" in
        C11) p="$V/selftest/C11-isap-load-key-branch-on-key.patch"; want="ct-stuck_ascon.*_isap_aead_load_key leak-branch_ascon.*_isap_aead_load_key";;
        C12) p="$V/selftest/C12-aead80pq-init-reads-24-key-bytes.patch"; want="asan-.*ascon80pq_aead_reinit guard-fault_ascon80pq_aead_init kernel-oob_ascon80pq_aead_";;
        *) echo "unknown id $id"; exit 2;;
    esac
    n=$(basename "$p" .patch)
    rm -rf "$S/$n"; mkdir -p "$S"; git clone -q "${VERIF_REPO:-/repo}" "$S/$n" || { echo "$n: clone failed"; rc=1; continue; }
    (cd "$S/$n" && git apply "$p") || { echo "$n: patch does not apply"; rc=1; continue; }
    (cd "$S/$n" && cmake -G Ninja -S . -B _b >/dev/null 2>&1 && cmake --build _b >/dev/null 2>&1 && ctest --test-dir _b -j8 2>&1 | grep -E "tests (passed|failed)")
    rm -rf "$S/$n/_b"
    rm -f "$V"/replays/$id-*.json
    out=$(VERIF_REPO="$S/$n" "$V/check" $id --tier quick 2>&1)
    echo "$out" | grep -E "^VIOLATION|^$id quick" | cut -c1-220 | head -12
    ok=1
    for w in $want; do
        f=$(ls "$V"/replays/ 2>/dev/null | grep -E "^$id-$w" | head -1)
        if [ -n "$f" ]; then echo "$n: CAUGHT ($f)"; cp "$V/replays/$f" "$V/selftest/$n.$(echo "$f" | sed "s/^$id-//; s/\.json$//" | cut -c1-60).replay.json"
        else echo "$n: MISSED ($w)"; ok=0; fi
    done
    [ $ok = 1 ] || rc=1
    rm -f "$V"/replays/$id-*.json
    rm -rf "$S/$n"
done
rmdir "$S" 2>/dev/null
# the generated Coq tables now describe the scratch trees; the next ordinary ./check run regenerates them from /repo (content hash)
exit $rc
