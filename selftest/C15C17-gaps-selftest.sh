#!/bin/sh
# Self-test for the audit-2 gaps 10 (C15 storage callbacks / save+load histories) and 11 (C17 ARDUINO String overloads
# executed).  Each patch is a one-line regression of /repo that builds, keeps every status result and every PRNG output /
# every default-build C++ result unchanged, and that the checks did NOT report before the gap was closed:
#   C15-gap10-save-seed-writes-at-end-of-region.patch   save_seed writes at offset size-32 while load_seed reads offset 0 (R9)
#   C15-gap10-load-seed-erase-flag-inverted.patch       load_seed's write asks for an erase exactly when none is needed (R9)
#   C17-gap11-arduino-xof-absorb-string-length-plus-1.patch   xof absorb(const String&) absorbs the terminating NUL too (R10)
# Usage: selftest/C15C17-gaps-selftest.sh [patch ...]   (default: all three).  Scratch copies under a mktemp directory, removed.
# Expected: "<name>: CAUGHT" for each, exit 0.
V="$(cd "$(dirname "$0")/.." && pwd)"
S="$(mktemp -d /tmp/gaps1011-selftest.XXXXXX)"
[ $# -eq 0 ] && set -- "$V"/selftest/C15-gap10-save-seed-writes-at-end-of-region.patch "$V"/selftest/C15-gap10-load-seed-erase-flag-inverted.patch \
                       "$V"/selftest/C17-gap11-arduino-xof-absorb-string-length-plus-1.patch
rc=0
for p in "$@"; do
    case "$p" in /*) ;; *) p="$PWD/$p";; esac
    n=$(basename "$p" .patch)
    id=$(echo "$n" | cut -c1-3)
    case "$id" in C15) want="RN-SAVE|RN-LOAD";; C17) want="arduino-differs";; *) echo "$n: unknown property"; rc=1; continue;; esac
    rm -rf "$S/$n"; cp -r "${VERIF_REPO:-/repo}" "$S/$n"
    (cd "$S/$n" && patch -p1 -s < "$p") || { echo "$n: patch does not apply"; rc=1; continue; }
    out=$(VERIF_REPO="$S/$n" "$V/check" "$id" --tier quick 2>&1)
    echo "$out" | grep -E "^VIOLATION|^$id quick" | cut -c1-220 | head -6
    if echo "$out" | grep -E "^VIOLATION property=$id replay=" | grep -Eq "$want"; then echo "$n: CAUGHT"; else echo "$n: MISSED"; rc=1; fi
    rm -rf "$S/$n"
done
rmdir "$S" 2>/dev/null
exit $rc
