#!/bin/sh
# Seeded-break self-test of ./check C18 (x86-64 part): applies each selftest/C18-[a-e]*.patch to a fresh clone of
# the repository (default /repo) in a scratch directory, runs the check against it (VERIF_REPO) and verifies that the
# expected violation signatures appear (and, for b, that generator equality does NOT fire).  Scratch copies are removed.
# usage: selftest/C18-x86-selftest.sh [repo]
V=$(cd "$(dirname "$0")/.." && pwd)
REPO=${1:-/repo}
T=$(mktemp -d /tmp/c18-selftest-XXXXXX)
rc=0
expect() {   # patch  must-contain...  -- must-not-contain...
    p=$1; shift
    rm -rf "$T/r"; git clone -q "$REPO" "$T/r" || exit 2
    (cd "$T/r" && git apply "$V/selftest/$p") || { echo "FAIL $p: does not apply"; rc=1; return; }
    out=$(cd "$V" && VERIF_REPO="$T/r" ./check C18 --tier quick 2>&1 | grep '^VIOLATION')
    neg=0
    for w in "$@"; do
        if [ "$w" = "--" ]; then neg=1; continue; fi
        if [ $neg = 0 ]; then echo "$out" | grep -q -- "$w" || { echo "FAIL $p: expected a violation matching $w"; rc=1; }
        else echo "$out" | grep -q -- "$w" && { echo "FAIL $p: unexpected violation matching $w"; rc=1; }; fi
    done
    echo "done $p: $(echo "$out" | sed 's/.*replays\/C18-//; s/\.json.*//' | tr '\n' ' ')"
}
expect C18-a-rorq-round3-file-only.patch generator-diff coq-proof-broken perm-wrong
expect C18-b-rorq-generator-and-file.patch coq-proof-broken perm-wrong -- generator-diff
expect C18-c-epilogue-pops-reordered.patch generator-diff coq-proof-broken C18-abi_ native-abi
expect C18-c2-epilogue-pop-dropped.patch C18-abi_ native-crash
expect C18-d-frame-mismatch.patch C18-abi_ native-crash
expect C18-e-jump-table-entry-5-ctest-invisible.patch generator-diff coq-proof-broken perm-wrong
rm -rf "$T"
[ $rc = 0 ] && echo "C18 x86-64 self-test: all seeded breaks rejected as expected"
exit $rc
