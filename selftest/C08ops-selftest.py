#!/usr/bin/env python3
"""Self-test of the byte-range obligations of C08 (tools/kern_byteops.py, coq/Obl/ByteOps.v).

For each seeded break selftest/C08ops-*.patch (applied to a scratch copy of the repository):
  1. the repository still builds and its own 114 tests pass (default configuration);
  2. the translator, run on the scratch copy into a PRIVATE output directory (nothing under coq/Gen is
     touched), names a concrete failing input (or reports the stray access as untranslatable = MISSING)
     for exactly the expected backend x operation tables;
  3. Coq rejects exactly those tables (`bo_table_ok ... = true` no longer holds) and still accepts an
     unaffected table of the same backend.

Needs the compiled development (make setup).  Usage: selftest/C08ops-selftest.py [--no-ctest] [patch-name ...]
Scratch data lives under /tmp/c08ops-selftest.<pid> and is removed."""
import os, sys, json, shutil, subprocess, time

V = os.path.dirname(os.path.dirname(os.path.abspath(__file__)))
REPO = os.environ.get("VERIF_REPO", "/repo")

# patch -> (backends to translate, expected failing (backend, variant) tables, kind, an unaffected table to re-check)
CASES = {
    "C08ops-c32-zero-clamp-39": (["c32"], {("c32", "zero")}, "cex", ("c32", "extract")),
    "C08ops-sliced64-extract-add-stops-at-39": (["x86_64", "c64"], {(b, o) for b in ("x86_64", "c64") for o in ("extract_add", "extract_add_inplace")}, "cex", ("x86_64", "extract_overwrite")),
    "C08ops-sliced64-extract-word-fast-path-overruns": (["x86_64", "c64"], {("x86_64", "extract"), ("c64", "extract")}, "missing", ("c64", "extract_add")),
    "C08ops-directxor-add-word-path-drops-a-bit": (["directxor", "generic"], {("directxor", "add"), ("generic", "add")}, "cex", ("generic", "overwrite")),
}


def sh(cmd, **kw):
    p = subprocess.run(cmd, stdout=subprocess.PIPE, stderr=subprocess.STDOUT, **kw)
    return p.returncode, p.stdout.decode(errors="replace")


def coqc(coqdir, rel):
    t = time.time()
    rc, out = sh(["coqc", "-q", "-noglob", "-Q", coqdir, "AsconV", os.path.join(coqdir, rel)])
    return rc == 0, out, time.time() - t


def main():
    args = [a for a in sys.argv[1:] if not a.startswith("--")]
    names = [os.path.basename(a).replace(".patch", "") for a in args] or list(CASES)
    S = "/tmp/c08ops-selftest.%d" % os.getpid()
    bad = 0
    try:
        for n in names:
            backends, expect, kind, control = CASES[n]
            d = os.path.join(S, n)
            shutil.rmtree(d, ignore_errors=True)
            os.makedirs(S, exist_ok=True)
            shutil.copytree(REPO, d, ignore=shutil.ignore_patterns("_build", ".git"))
            rc, out = sh(["patch", "-p1", "-s", "-i", os.path.join(V, "selftest", n + ".patch")], cwd=d)
            if rc:
                print("%s: patch does not apply\n%s" % (n, out)); bad += 1; continue
            if "--no-ctest" not in sys.argv:
                rc, out = sh("cmake -G Ninja -S . -B _b >/dev/null 2>&1 && cmake --build _b >/dev/null 2>&1 && ctest --test-dir _b -j8 2>&1 | grep -E 'tests (passed|failed)'", shell=True, cwd=d)
                print("%s: repository tests: %s" % (n, out.strip()))
                shutil.rmtree(os.path.join(d, "_b"), ignore_errors=True)
                if "100% tests passed" not in out:
                    bad += 1
            # private Coq tree: the compiled library by symlink, an empty Gen
            cq = os.path.join(d, "_coq")
            os.makedirs(os.path.join(cq, "Gen"))
            for sub in ("Sym", "Obl", "Bits"):
                os.symlink(os.path.join(V, "coq", sub), os.path.join(cq, sub))
            rp = os.path.join(d, "_report.json")
            rc, out = sh([sys.executable, os.path.join(V, "tools", "kern_byteops.py"), d, "--force", "--gen", os.path.join(cq, "Gen"), "--report", rp, "--only", ",".join(backends)])
            print("%s: translator: %s" % (n, "\n    ".join(l[:400] for l in out.strip().split("\n")[-4:])))
            rep = json.load(open(rp))
            flagged = set((r["backend"], r["op"]) for r in rep["results"] if (r["n_counterexamples"] if kind == "cex" else r["missing"]))
            other = set((r["backend"], r["op"]) for r in rep["results"] if (r["missing"] if kind == "cex" else r["n_counterexamples"]))
            ok = flagged == expect and not other
            print("%s: tables the translator flags (%s): %s  expected: %s  -> %s" % (n, kind, sorted(flagged), sorted(expect), "ok" if ok else "MISMATCH"))
            bad += 0 if ok else 1
            for r in rep["results"]:
                if (r["backend"], r["op"]) in expect:
                    if kind == "cex" and r["counterexamples"]:
                        c = r["counterexamples"][0]
                        pairs = sorted(set((x["offset"], x["size"]) for x in r["counterexamples"]))
                        print("    %s %s: %d of 861 (offset,size) pairs fail; first: %s(offset=%d, size=%d) canonical state %s data %s -> state %s (want %s) output %s (want %s); pairs e.g. %s" %
                              (r["backend"], r["op"], r["n_counterexamples"], c["operation"], c["offset"], c["size"], c["canonical_state"], c["data"], c["got_state"], c["want_state"],
                               c["got_output"], c["want_output"], pairs[:6]))
                    elif kind == "missing":
                        print("    %s %s: %d pairs untranslatable; first: %s" % (r["backend"], r["op"], len(r["missing"]), r["missing"][0]))
            # Coq: the expected tables must be rejected, the control table accepted
            todo = sorted(expect) + [control]
            for (b, o) in todo:
                r = next(x for x in rep["results"] if x["backend"] == b and x["op"] == o)
                tt, good = 0.0, True
                for f in r["files"]:
                    if os.path.exists(os.path.join(cq, "Gen", f[:-2] + ".vo")):
                        continue
                    good, out, t = coqc(cq, os.path.join("Gen", f))
                    tt += t
                    if not good:
                        break
                want = (b, o) not in expect
                verdict = "accepted" if good else "REJECTED (%s)" % " ".join(l.strip() for l in out.strip().split("\n")[-3:])[:160]
                print("    Coq %s_%s: %s in %.0f s -> %s" % (b, o, verdict, tt, "ok" if good == want else "UNEXPECTED"))
                bad += 0 if good == want else 1
            shutil.rmtree(d, ignore_errors=True)
    finally:
        shutil.rmtree(S, ignore_errors=True)
    print("C08ops self-test: %s" % ("all seeded breaks caught" if not bad else "%d problem(s)" % bad))
    return 1 if bad else 0


if __name__ == "__main__":
    sys.exit(main())
