#!/usr/bin/env python3
"""Self-test of the C18 permutation-semantics / ABI sub-checks for the ARM, i386 and m68k files.

For every selftest/C18-<isa>-*.patch (a one-line defect in the checked-in .S file: a changed rotation amount in one
round, or a dropped restore / clobber of a callee-saved register) a scratch copy of /repo/src gets the patch, the
translator runs on it, and the run must (1) print a `MISSING kern_perm <name>: ...` line for exactly the expected
profiles and (2) produce Coq data for which `backend_ok ... = false` is PROVED by vm_compute, while the profiles
the patch does not touch still prove `= true`.  A last case bypasses the translator's own concrete pre-check: the Gen
file of the unchanged tree is edited (one rotation amount in one segment) and Coq must reject exactly that segment.

usage: C18-arm-selftest.py [patch-name-substring ...]      exit 0 = every defect was rejected"""
import os, sys, re, glob, shutil, subprocess, tempfile

VERIF = os.path.dirname(os.path.dirname(os.path.abspath(__file__)))
REPO = os.environ.get("VERIF_REPO", "/repo")
NAMES = {"armv8a": ["armv8a"], "armv7m": ["armv7m"], "armv6": ["armv6"], "armv6m": ["armv6m"], "i386": ["i386"], "m68k": ["m68k", "m68kcf"]}
EXPECT = {"m68k-rot": ["m68k"], "m68k-rot-coldfire": ["m68kcf"]}          # default: every profile of the file


def sh(cmd, cwd=None, timeout=900):
    p = subprocess.run(cmd, cwd=cwd, stdout=subprocess.PIPE, stderr=subprocess.STDOUT, timeout=timeout)
    return p.returncode, p.stdout.decode()


def coq_verdict(gen_dir, name):
    """-> 'true' / 'false' / error text : which of backend_ok = true / = false Coq proves for gen_dir/Kern_<name>.v"""
    q = ["-Q", os.path.join(VERIF, "coq"), "AsconV", "-Q", gen_dir, "STGen"]
    rc, out = sh(["coqc"] + q + ["Kern_%s.v" % name], cwd=gen_dir)
    if rc:
        return "Gen file does not compile: " + out[-300:]
    for verdict in ("true", "false"):
        f = os.path.join(gen_dir, "T_%s_%s.v" % (name, verdict))
        open(f, "w").write("From Coq Require Import List Arith Bool. Import ListNotations.\n"
                           "From AsconV Require Import Sym.Wexpr Sym.Pipe Sym.Kernel Sym.KernelP Obl.KernPerm.\nFrom STGen Require Import Kern_%s.\n"
                           "Lemma t : backend_ok %s_layout %s_segs %s_chains = %s. Proof. vm_compute. reflexivity. Qed.\n"
                           "Eval vm_compute in (map (check_seg %s_layout) %s_segs).\n" % (name, name, name, name, verdict, name, name))
        rc, out = sh(["coqc"] + q + [os.path.basename(f)], cwd=gen_dir)
        if rc == 0:
            return verdict, out
    return "neither", out


def translate(src_root, work, names):
    """run the translator of THIS tree on src_root, writing Gen files under work/coq/Gen"""
    shutil.copytree(os.path.join(VERIF, "tools"), os.path.join(work, "tools"), ignore=shutil.ignore_patterns("__pycache__"))
    env = dict(os.environ, C18_ARM_FORCE="1")
    p = subprocess.run([sys.executable, os.path.join(work, "tools", "gen.d", "22-kern-perm-arm"), src_root] + names, cwd=work, env=env,
                       stdout=subprocess.PIPE, stderr=subprocess.STDOUT, timeout=900)
    return p.stdout.decode()


def main():
    sel = sys.argv[1:]
    patches = sorted(p for isa in NAMES for p in glob.glob(os.path.join(VERIF, "selftest", "C18-%s-*.patch" % isa)))
    patches = [p for p in patches if not sel or any(s in p for s in sel)]
    bad = 0
    for p in patches:
        tag = os.path.basename(p)[4:-6]
        isa = tag.split("-")[0]
        names = NAMES[isa]
        expect = EXPECT.get(tag, names)
        with tempfile.TemporaryDirectory(prefix="c18st-") as tmp:
            shutil.copytree(os.path.join(REPO, "src"), os.path.join(tmp, "repo", "src"))
            rc, out = sh(["patch", "-p1", "-i", p], cwd=os.path.join(tmp, "repo"))
            if rc:
                print("SELFTEST-ERROR %s: patch does not apply: %s" % (tag, out[-200:])); bad += 1; continue
            out = translate(os.path.join(tmp, "repo"), os.path.join(tmp, "w"), names)
            for n in names:
                missing = [l for l in out.split("\n") if l.startswith("MISSING kern_perm %s:" % n)]
                v = coq_verdict(os.path.join(tmp, "w", "coq", "Gen"), n)
                verdict = v[0] if isinstance(v, tuple) else v
                want_reject = n in expect
                ok = (bool(missing) and verdict == "false") if want_reject else (not missing and verdict == "true")
                print("%s %-22s %-7s expected %-8s MISSING lines: %d ; Coq proves backend_ok = %s%s" % (
                    "ok  " if ok else "FAIL", tag, n, "reject" if want_reject else "accept", len(missing), verdict,
                    (" ; first: " + missing[0][:150]) if missing else ""))
                bad += 0 if ok else 1
    if not sel or any("gen" in s for s in sel):
        # Gen-level mutation: the translator's concrete pre-check is not in the loop, Coq alone must reject
        with tempfile.TemporaryDirectory(prefix="c18st-") as tmp:
            translate(REPO, os.path.join(tmp, "w"), ["armv8a", "armv6m", "m68k"])
            for n, a, z in (("armv8a", "(WRotr 19 ", "(WRotr 18 "), ("armv6m", "(WRotr 20 ", "(WRotr 21 "), ("m68k", "(WRotr 4 ", "(WRotr 5 ")):
                g = os.path.join(tmp, "w", "coq", "Gen", "Kern_%s.v" % n)
                txt = open(g).read()
                lines = txt.split("\n")
                idx = [i for i, l in enumerate(lines) if l.startswith("Definition %s_seg" % n) and a in l]
                i = idx[len(idx) // 2]
                lines[i] = lines[i].replace(a, z, 1)
                open(g, "w").write("\n".join(lines))
                v = coq_verdict(os.path.dirname(g), n)
                verdict = v[0] if isinstance(v, tuple) else v
                segs = re.search(r"=\s*\[([^\]]*)\]", v[1]) if isinstance(v, tuple) else None
                flags = [x.strip() for x in segs.group(1).replace("\n", " ").split(";")] if segs else []
                ok = verdict == "false" and flags.count("false") == 1
                print("%s gen-mutation %-7s one rotation changed in one segment of the generated Coq data: Coq proves backend_ok = %s ; check_seg false for %d of %d segments" % (
                    "ok  " if ok else "FAIL", n, verdict, flags.count("false"), len(flags)))
                bad += 0 if ok else 1
    print("C18-arm-selftest: %s" % ("all defects rejected" if not bad else "%d FAILURES" % bad))
    return 1 if bad else 0


if __name__ == "__main__":
    sys.exit(main())
