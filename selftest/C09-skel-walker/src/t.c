#include <ascon/api.h>
#define WRAP(s) do { ascon_acquire(s); } while (0)
static int bal(ascon_state_t *s) { ascon_acquire(s); ascon_release(s); return 1; }
int pub_goto(ascon_state_t *s, int n) { ascon_acquire(s); if (n) goto out; n++; out: ascon_release(s); return n; }
int pub_switch(ascon_state_t *s, int n) {
    ascon_acquire(s);
    switch (n) { case 0: n = 3; break; case 1: ascon_release(s); return 1; case 2: case 3: n = 4; default: n = 5; }
    ascon_release(s); return n; }
int pub_dowhile0(ascon_state_t *s, int n) { WRAP(s); ascon_release(s); return n; }
int pub_order(ascon_state_t *s, int n) { return bal(s) + bal(s); }
int pub_ternary(ascon_state_t *s, int n) { ascon_acquire(s); n = n ? (ascon_release(s), 1) : (n && bal(s)); if (!n) ascon_release(s); return n; }
static int (*fp)(ascon_state_t *) = bal;
int pub_addr(ascon_state_t *s, int n) { return fp(s); }
int pub_early(ascon_state_t *s, int n) { ascon_acquire(s); if (n < 0) return -1; ascon_release(s); return 0; }
int pub_loop(ascon_state_t *s, int n) { int i; for (i = 0; i < n; ++i) { if (i == 3) continue; ascon_acquire(s); if (i == 5) { ascon_release(s); break; } ascon_release(s); } return 0; }
int pub_undefined(ascon_state_t *s, int n) { ascon_acquire(s); helper_undefined(s); ascon_release(s); return 0; }
int pub_forever(ascon_state_t *s, int n) { for (;;) { ascon_acquire(s); if (n--) { ascon_release(s); return 1; } ascon_release(s); } }
