#!/usr/bin/env python3
"""Self-test of the C18 permutation-semantics / ABI sub-checks for the three AVR5 files.

For every selftest/C18-avr-*.patch (a ONE-instruction defect in a checked-in .S file: a broken rotate-through-carry
chain, an AND turned into an OR in the masked S-box, a callee-saved register that is not restored, SREG not restored,
a store onto the return address, a store in front of the preserve buffer) a scratch copy of /repo/src gets the patch,
the translator of this tree runs on it (tools/kern_avr.py, forced, Gen files in the scratch directory), and the run
must (1) print a `MISSING kern_perm <profile>: ...` line for exactly the profiles the patch touches and (2) produce
Coq data for which `backend_ok12 / vbackend_ok12 ... = false` is PROVED by vm_compute, while the untouched profiles
still prove `= true`.  Two last cases bypass the translator's concrete pre-check: the Gen file of the unchanged tree
is edited (one shift amount in one segment) and Coq alone must reject exactly that segment.

usage: C18-avr-selftest.py [patch-name-substring ... | gen]      exit 0 = every defect was rejected"""
import os, sys, re, glob, shutil, subprocess, tempfile

VERIF = os.path.dirname(os.path.dirname(os.path.abspath(__file__)))
REPO = os.environ.get("VERIF_REPO", "/repo")
PROFILES = {"plain": ["avr5"], "x2": ["avr5_x2", "avr5_x2m3"], "x3": ["avr5_x3"]}
EXPECT = {"x2-store-outside-frame": ["avr5_x2"], "x2-sreg-not-restored": ["avr5_x2"], "x2-and-or": ["avr5_x2"], "x2-preserve-overrun": ["avr5_x2"]}   # MAX_SHARES < 3 half of the file
WHAT = {"plain-rot": "first_round", "plain-no-restore-r9": "ABI: at return callee-saved register(s) r9", "x2-store-outside-frame": "above the function's own frame",
        "x2-sreg-not-restored": "interrupt flag is not restored", "x2-and-or": "concrete test", "x2-preserve-overrun": "out-of-bounds write", "x3-rot": "concrete test"}


def sh(cmd, cwd=None, timeout=1800, env=None):
    p = subprocess.run(cmd, cwd=cwd, stdout=subprocess.PIPE, stderr=subprocess.STDOUT, timeout=timeout, env=env)
    return p.returncode, p.stdout.decode()


def coq_verdict(gen_dir, name):
    """-> ('true' | 'false' | 'neither', per-segment flags) : which of (v)backend_ok12 = true / = false Coq proves for the scratch Gen file"""
    masked = name != "avr5"
    base = ("Masked_%s" if masked else "Kern_%s") % name
    q = ["-Q", os.path.join(VERIF, "coq"), "AsconV", "-Q", gen_dir, "STGen"]
    rc, out = sh(["coqc"] + q + [base + ".v"], cwd=gen_dir)
    if rc:
        return "Gen file does not compile: " + out[-300:], []
    if masked:
        stmt = "vbackend_ok12 %s_ifaces %s_entry %s_exit %s_segs %s_chains" % ((name,) * 5)
        per = "map (check_vseg %s_ifaces) %s_segs" % (name, name)
    else:
        stmt = "backend_ok12 %s_layout %s_segs %s_chains" % ((name,) * 3)
        per = "map (check_seg %s_layout) %s_segs" % (name, name)
    f = os.path.join(gen_dir, "T_%s.v" % name)
    open(f, "w").write("From Coq Require Import List Arith Bool. Import ListNotations.\n"
                       "From AsconV Require Import Sym.Wexpr Sym.Pipe Sym.Kernel Sym.KernelP Sym.VKernel Obl.KernPerm Obl.KernMaskedDefs Obl.KernPermAVR.\nFrom STGen Require Import %s.\n"
                       "Definition verdict : bool := %s.\nDefinition flags : list bool := %s.\n"
                       "Eval vm_compute in (verdict, flags).\n" % (base, stmt, per))
    rc, out = sh(["coqc"] + q + [os.path.basename(f)], cwd=gen_dir)
    if rc:
        return "neither: " + out[-300:], []
    m = re.search(r"=\s*\((true|false),\s*\[([^\]]*)\]\)", out.replace("\n", " "))
    if not m:
        return "neither: " + out[-300:], []
    flags = [x.strip() for x in m.group(2).split(";") if x.strip()]
    # the verdict is a theorem: re-state it and let Coq check it
    g = os.path.join(gen_dir, "P_%s.v" % name)
    open(g, "w").write("From STGen Require Import T_%s.\nLemma t : verdict = %s. Proof. vm_compute. reflexivity. Qed.\n" % (name, m.group(1)))
    rc, out = sh(["coqc"] + q + [os.path.basename(g)], cwd=gen_dir)
    return (m.group(1) if rc == 0 else "neither: " + out[-200:]), flags


def translate(src_root, work, names):
    """run the translator of THIS tree on src_root, writing Gen files under work/coq/Gen"""
    shutil.copytree(os.path.join(VERIF, "tools"), os.path.join(work, "tools"), ignore=shutil.ignore_patterns("__pycache__"))
    rc, out = sh([sys.executable, os.path.join(work, "tools", "kern_avr.py"), src_root] + names, cwd=work, env=dict(os.environ, C18_AVR_FORCE="1"))
    return out


def main():
    sel = sys.argv[1:]
    patches = sorted(glob.glob(os.path.join(VERIF, "selftest", "C18-avr-*.patch")))
    patches = [p for p in patches if not sel or any(s in p for s in sel)]
    bad = 0
    for p in patches:
        tag = os.path.basename(p)[len("C18-avr-"):-len(".patch")]
        names = PROFILES[tag.split("-")[0]]
        expect = EXPECT.get(tag, names)
        with tempfile.TemporaryDirectory(prefix="c18avr-") as tmp:
            shutil.copytree(os.path.join(REPO, "src"), os.path.join(tmp, "repo", "src"))
            rc, out = sh(["patch", "-p1", "-i", p], cwd=os.path.join(tmp, "repo"))
            if rc:
                print("SELFTEST-ERROR %s: patch does not apply: %s" % (tag, out[-200:])); bad += 1; continue
            out = translate(os.path.join(tmp, "repo"), os.path.join(tmp, "w"), names)
            for n in names:
                missing = [l for l in out.split("\n") if l.startswith("MISSING kern_perm %s:" % n)]
                verdict, flags = coq_verdict(os.path.join(tmp, "w", "coq", "Gen"), n)
                want_reject = n in expect
                named = any(WHAT.get(tag, "") in l for l in missing)
                ok = (bool(missing) and named and verdict == "false") if want_reject else (not missing and verdict == "true")
                print("%s %-26s %-10s expected %-7s MISSING lines: %2d ; Coq proves the obligation = %s%s" % (
                    "ok  " if ok else "FAIL", tag, n, "reject" if want_reject else "accept", len(missing), verdict,
                    (" ; first: " + missing[0][:230]) if missing else ""))
                bad += 0 if ok else 1
    if not sel or any("gen" in s for s in sel):
        # Gen-level mutation: the translator's concrete pre-check is not in the loop, Coq alone must reject
        with tempfile.TemporaryDirectory(prefix="c18avr-") as tmp:
            translate(REPO, os.path.join(tmp, "w"), ["avr5", "avr5_x2"])
            for n, base, a, z in (("avr5", "Kern_avr5.v", "(WShr 7 ", "(WShr 6 "), ("avr5_x2", "Masked_avr5_x2.v", "(WShl 7 ", "(WShl 6 ")):
                g = os.path.join(tmp, "w", "coq", "Gen", base)
                lines = open(g).read().split("\n")
                idx = [i for i, l in enumerate(lines) if l.startswith("Definition %s_seg" % n) and a in l]
                i = idx[len(idx) // 2]
                lines[i] = lines[i].replace(a, z, 1)
                open(g, "w").write("\n".join(lines))
                verdict, flags = coq_verdict(os.path.dirname(g), n)
                ok = verdict == "false" and flags.count("false") == 1
                print("%s gen-mutation %-10s one shift amount changed in one segment of the generated Coq data: Coq proves the obligation = %s ; segment check false for %d of %d segments" % (
                    "ok  " if ok else "FAIL", n, verdict, flags.count("false"), len(flags)))
                bad += 0 if ok else 1
    print("C18-avr-selftest: %s" % ("all defects rejected" if not bad else "%d FAILURES" % bad))
    return 1 if bad else 0


if __name__ == "__main__":
    sys.exit(main())
