#!/usr/bin/env python3
"""Seeded-break self-test of the C10 additions (32-bit masked kernels, 32-bit word toolkit, remaining word operations):
applies each selftest/C10-c32-*.patch to a fresh clone of the repository (default /repo) in a scratch directory,
re-runs the two translators (tools/kern_masked_c32.py, tools/kern_mword2.py) against it, rebuilds the obligation
files and verifies that the expected obligation no longer checks (and that the others still do).  With --ctest the
mutated tree is also built (-DBACKEND_C32=ON for the c32 patches, default otherwise) and its own test suite is run, to
show which seeded breaks the suite does not notice.  Afterwards the generated files are restored from the unchanged
repository.  usage: selftest/C10-c32-selftest.py [--ctest] [repo]"""
import os, sys, subprocess, tempfile, shutil, json, time
V = os.path.dirname(os.path.dirname(os.path.abspath(__file__)))
sys.path.insert(0, os.path.join(V, "lib"))
import common

CASES = [
    # patch, translators, targets expected to FAIL, targets expected to still check, ctest config
    ("C10-c32-a-perm-x2-allones-random.patch", ["kern_masked_c32.py"], ["Gen/MaskedObl_mx2_c32.vo"], ["Gen/MaskedObl_mx3_c32.vo"], "c32"),
    ("C10-c32-a2-perm-x4-round-constant.patch", ["kern_masked_c32.py"], ["Gen/MaskedObl_mx4_c32.vo"], ["Gen/MaskedObl_mx2_c32.vo"], "c32"),
    ("C10-c32-b-randomize-x3-reuses-random.patch", ["kern_mword2.py"], ["Gen/MW2_c32_tk.vo", "Gen/MW2_c32_st.vo"], ["Gen/MW2_c32_ops3.vo"], "c32"),
    ("C10-c32-c-replace-x3-c64-mask-rotation.patch", ["kern_mword2.py"], ["Gen/MW2_c64_ops3.vo"], ["Gen/MW2_c64_ops2.vo", "Gen/MW2_c32_ops3.vo"], "c64"),
    ("C10-c32-c3-zero-x3-c64-reuses-random.patch", ["kern_mword2.py"], ["Gen/MW2_c64_ops3.vo"], ["Gen/MW2_c64_ops2.vo"], "c64"),
    ("C10-c32-c2-store-partial-x3-asm-rotation.patch", ["kern_mword2.py"], ["Gen/MW2_x86_ops3.vo"], ["Gen/MW2_x86_ops4.vo", "Gen/MW2_c64_ops3.vo"], "default"),
]
ALL = ["Gen/MaskedObl_mx2_c32.vo", "Gen/MaskedObl_mx3_c32.vo", "Gen/MaskedObl_mx4_c32.vo", "Gen/MW2_index.vo",
       "Props/Properties_C10_c32.vo", "Props/Properties_C10_words.vo"]


def translate(repo, tools):
    out = ""
    for t in tools:
        out += subprocess.run(["python3", os.path.join(V, "tools", t), repo], stdout=subprocess.PIPE, stderr=subprocess.STDOUT).stdout.decode()
    return out


def ctest(repo, cfg, td):
    b = os.path.join(td, "build")
    shutil.rmtree(b, ignore_errors=True)
    flags = {"c32": ["-DBACKEND_C32=ON"], "c64": ["-DBACKEND_C64=ON"], "default": []}[cfg]
    r = subprocess.run(["cmake", "-G", "Ninja", "-S", repo, "-B", b] + flags, stdout=subprocess.PIPE, stderr=subprocess.STDOUT)
    r = subprocess.run(["cmake", "--build", b], stdout=subprocess.PIPE, stderr=subprocess.STDOUT)
    if r.returncode:
        return "build failed"
    r = subprocess.run(["ctest", "--test-dir", b, "-j16"], stdout=subprocess.PIPE, stderr=subprocess.STDOUT)
    last = [l for l in r.stdout.decode().split("\n") if "tests passed" in l or "tests failed" in l]
    return (last[-1].strip() if last else "ctest rc=%d" % r.returncode)


def main():
    args = [a for a in sys.argv[1:] if not a.startswith("--")]
    repo = args[0] if args else "/repo"
    do_ctest = "--ctest" in sys.argv
    rc = 0
    td = tempfile.mkdtemp(prefix="c10c32-selftest-")
    try:
        with common.Lock("prove"):
            try:
                for patch, tools, bad, good, cfg in CASES:
                    r = os.path.join(td, "r")
                    shutil.rmtree(r, ignore_errors=True)
                    subprocess.run(["git", "clone", "-q", repo, r], check=True)
                    if subprocess.run(["git", "apply", os.path.join(V, "selftest", patch)], cwd=r).returncode:
                        print("FAIL %s: does not apply" % patch); rc = 1; continue
                    t0 = time.time()
                    out = translate(r, tools)
                    notes = [l for l in out.split("\n") if l.startswith(("MISSING", "NOTE"))]
                    cex = []
                    if "kern_mword2.py" in tools:
                        rep = json.load(open(os.path.join(V, "build", "kern", "mword2.json")))
                        cex = sorted(k for k, v in rep.items() if not v.get("concrete_ok"))
                    for t in bad + good:          # a stale .vo of an aggregate file must not count as "still checks"
                        if os.path.exists(os.path.join(common.COQ, t)):
                            os.remove(os.path.join(common.COQ, t))
                    ok, log = common.coq_make(bad + good)
                    res = "ok"
                    for t in bad:
                        if ok.get(t):
                            res = "FAIL: %s still checks" % t; rc = 1
                    for t in good:
                        if not ok.get(t):
                            res = "FAIL: %s no longer checks (collateral)" % t; rc = 1
                    line = "%s %s: rejected targets %s; translator counter-examples: %s; notes: %d (%.0f s)" % (
                        "done" if res == "ok" else res, patch, [t for t in bad if not ok.get(t)], cex[:6], len(notes), time.time() - t0)
                    if do_ctest:
                        line += "; repository's own tests on the mutated tree (%s build): %s" % (cfg, ctest(r, cfg, td))
                    print(line, flush=True)
            finally:
                # restore the generated files from the unchanged tree
                translate(repo, ["kern_masked_c32.py", "kern_mword2.py"])
                ok, log = common.coq_make(ALL)
                if not all(ok.values()):
                    print("FAIL: obligations do not check on the unchanged tree after restoring: %s" % [t for t, v in ok.items() if not v]); rc = 1
    finally:
        shutil.rmtree(td, ignore_errors=True)
    if rc == 0:
        print("C10 c32/words self-test: all seeded breaks rejected as expected")
    return rc


if __name__ == "__main__":
    sys.exit(main())
