#!/usr/bin/env python3
"""Self-test of the hand-written specification side (coq/Obl/MWordSpec.v, Obl/BoundsReq.v, Model/BoundsDefs.in_contract):
the PYTHON spec generators are corrupted (in memory: functions of tools/kern_mword2.py, kern_mword.py, kern_tag.py,
kern_masked.py, kern_bounds.py are replaced before their main() runs), the corrupted translators write their Coq files into a
scratch directory, and the files are compiled against the unchanged hand-written Coq of this tree.  /repo is NOT changed: the
translated programs are right, only what Python says about them is wrong.  For every case the script shows

  old check : what the machinery checked before (post(prog v) = spec v over the PRINTED programs / `negb be_valid || ok`)
  new check : fn_obl_ok / vstd_ok / the C12 requirement theorems

A case is "ok" when the new check REJECTS.  Cases whose old check ACCEPTED are the ones the audit worried about: the theorem
was true of a weaker statement.  Needs coq/Obl/*.vo, Model/BoundsDefs.vo, Model/C12Config.vo of this tree to be built
(make setup).  usage: selftest/C10-spec-selftest.py [repo]"""
import os, sys, subprocess, tempfile, shutil, time, importlib, re
V = os.path.dirname(os.path.dirname(os.path.abspath(__file__)))
sys.path.insert(0, os.path.join(V, "tools"))
COQ = os.path.join(V, "coq")


def coqc(path, cwd):
    r = subprocess.run(["timeout", "900", "coqc", "-Q", COQ, "AsconV", "-Q", cwd, "Scr", path], cwd=cwd, stdout=subprocess.PIPE, stderr=subprocess.STDOUT)
    return r.returncode == 0, r.stdout.decode()[-600:]


def fresh(mod):
    for m in ("kern_mword", "kern_mword2", "kern_tag", "kern_masked", "kern_masked_c32", "kern_bounds"):
        sys.modules.pop(m, None)
    return importlib.import_module(mod)


OLD_FN = """From Coq Require Import List Bool. From AsconV Require Import Sym.Wexpr Sym.Pipe Obl.FnObl. From Scr Require Import %(m)s.
Definition old_ok (o : fn_obl) : bool := check_pipes (fo_widths o) (PSeq (PRun (fo_prog o)) (PRun (fo_post o))) (PRun (fo_spec o)).
Lemma old : forallb old_ok %(l)s = true. Proof. vm_compute. reflexivity. Qed.
"""
NEW_FN = """From Coq Require Import List Bool. From AsconV Require Import Sym.Wexpr Sym.Pipe Obl.FnObl. From Scr Require Import %(m)s.
Lemma new : forallb fn_obl_ok %(l)s && covers %(l)s (%(r)s) = true. Proof. vm_compute. reflexivity. Qed.
"""


def strip_lemmas(path):
    """the generated group file without its own `_ok` lemmas (they are re-stated as old / new below)"""
    txt = open(path).read()
    txt = "\n".join(l for l in txt.split("\n") if not re.match(r"^Lemma \w+_ok : forallb fn_obl_ok", l))
    open(path, "w").write(txt)


def fn_case(td, gen, module, lst, reqs="nil"):
    strip_lemmas(os.path.join(gen, module + ".v"))
    ok, log = coqc(os.path.join(gen, module + ".v"), gen)
    if not ok:
        return None, None, "generated file does not compile: " + log
    open(os.path.join(gen, "Old.v"), "w").write(OLD_FN % {"m": module, "l": lst})
    open(os.path.join(gen, "New.v"), "w").write(NEW_FN % {"m": module, "l": lst, "r": reqs})
    o, _ = coqc(os.path.join(gen, "Old.v"), gen)
    n, _ = coqc(os.path.join(gen, "New.v"), gen)
    return o, n, ""


# ------------------------------------------------------------------------------------------------ the corruptions
def case_unrotate(repo, td):
    """kern_mword2.A64.logical un-rotates share 2 by 23 instead of 22 bits (value function wrong for n >= 3)"""
    m2 = fresh("kern_mword2")
    orig = m2.A64.logical
    m2.A64.logical = staticmethod(lambda base, j: m2.rotl64(m2.le64(base + 8 * j), 11 * j + (1 if j == 2 else 0)))
    gen = os.path.join(td, "coq", "Gen"); os.makedirs(gen, exist_ok=True)
    m2.main(repo, gen)
    return fn_case(td, gen, "MW2_c64_ops3", "c64_ops3_obls")


def case_weak_randomize(repo, td):
    """kern_mword2.basic_obligations: the randomize obligation observes only the value and the surplus shares (no longer says
    that every share moves by its own fresh unit) - a true but much weaker statement"""
    m2 = fresh("kern_mword2")
    orig = m2.basic_obligations

    def weak(A, n):
        obs = orig(A, n)
        out = []
        for ob in obs:
            if ob[0].endswith("_randomize"):
                sb = m2.WB if ob[1] == "" else 0
                build = lambda U, sb=sb: (m2.prog([m2.value(A, n, 0)] + m2.surplus(n)), m2.prog([m2.value(A, n, sb)] + m2.surplus(n)))
                ob = ob[:4] + (build,) + ob[5:]
            out.append(ob)
        return out
    m2.basic_obligations = weak
    gen = os.path.join(td, "coq", "Gen"); os.makedirs(gen, exist_ok=True)
    m2.main(repo, gen)
    return fn_case(td, gen, "MW2_c32_tk", "c32_tk_obls")


def case_wrong_function(repo, td):
    """the translator writes the obligation of ascon_masked_word_x2_load a second time in the place of ascon_masked_word_x3_load
    (24 obligations as before, all true): only the hand-written coverage list notices that (load, 3 shares) is gone"""
    m1 = fresh("kern_mword")
    gen = os.path.join(td, "coq", "Gen"); os.makedirs(gen, exist_ok=True)
    m1.main(repo, gen)
    p = os.path.join(gen, "MWord.v")
    lines = open(p).read().split("\n")
    x2 = [l for l in lines if l.startswith("Definition mw_c64_x2_load :")][0]
    lines = [x2.replace("Definition mw_c64_x2_load :", "Definition mw_c64_x3_load :") if l.startswith("Definition mw_c64_x3_load :") else l for l in lines]
    open(p, "w").write("\n".join(lines))
    return fn_case(td, gen, "MWord", "mword_c64_obls", "req_toolkit B64 4 false")


def case_weak_incr(repo, td):
    """kern_tag.py: the increment obligation looks at the last nonce byte only (no carry into the other fifteen is stated)"""
    fresh("kern_mword")
    src = open(os.path.join(V, "tools", "kern_tag.py")).read()
    a = 'emit("nonce_incr", "ascon_aead_increment_nonce", s, sp, spec_outs,'
    assert a in src
    src = src.replace(a, 's.outs = s.outs[15:]; spec_outs = spec_outs[15:]; ' + a)
    ns = {"__name__": "kern_tag_mut", "__file__": os.path.join(V, "tools", "kern_tag.py")}
    exec(compile(src, "kern_tag_mut", "exec"), ns)
    gen = os.path.join(td, "coq", "Gen"); os.makedirs(gen, exist_ok=True)
    ns["main"](repo, gen)
    p = os.path.join(gen, "TagObl.v")
    txt = "\n".join(l for l in open(p).read().split("\n") if not l.startswith("Lemma "))
    open(p, "w").write(txt)
    return fn_case(td, gen, "TagObl", "nonce_obls")


def case_kernel_value(repo, td):
    """kern_masked.mem_value_prog (value program of the kernels' memory interface) un-rotates share 2 by 23 instead of 22 bits"""
    km = fresh("kern_masked")
    orig = km.mem_value_prog
    km.mem_value_prog = lambda n, total: orig(n, total).replace("(WRotr 42 ", "(WRotr 41 ")
    gen = os.path.join(td, "coq", "Gen"); os.makedirs(gen, exist_ok=True)
    name, n = "mx3_c64", 3
    ifaces, segtab, chains, errors, ein, eout = km.run_kernel(name, n, km.llvm_provider(repo, n))
    km.emit(name, ifaces, segtab, chains, os.path.join(gen, "Masked_%s.v" % name), ein, eout)
    ok, log = coqc(os.path.join(gen, "Masked_%s.v" % name), gen)
    if not ok:
        return None, None, log
    pre = "From AsconV Require Import Obl.KernMaskedDefs. From Scr Require Import Masked_%s.\n" % name
    open(os.path.join(gen, "Old.v"), "w").write(pre + "Lemma old : vbackend_ok %s_ifaces %s_entry %s_exit %s_segs %s_chains = true. Proof. vm_compute. reflexivity. Qed.\n" % ((name,) * 5))
    open(os.path.join(gen, "New.v"), "w").write(pre + "Lemma new : vstd_ok MWordSpec.B64 3 4 %s_ifaces %s_entry %s_exit = true. Proof. vm_compute. reflexivity. Qed.\n" % ((name,) * 3))
    o, _ = coqc(os.path.join(gen, "Old.v"), gen)
    nw, _ = coqc(os.path.join(gen, "New.v"), gen)
    return o, nw, ""


OLD_B = """From Coq Require Import List NArith String Bool. From AsconV Require Import Model.BoundsDefs. From Scr Require Import Bounds.
Definition old_entry_ok (e : bentry) : bool := negb (be_valid e) || verdict_ok (be_verdict e).
Lemma old : forallb old_entry_ok bounds_entries = true /\\ (1000 <=? N.of_nat (List.length bounds_entries))%N = true. Proof. vm_compute. split; reflexivity. Qed.
"""
NEW_B = """From Coq Require Import List NArith String Bool. From AsconV Require Import Model.BoundsDefs Obl.BoundsReq. From Scr Require Import Bounds.
Lemma new : forallb (breq_met (fun _ => false) bounds_entries) bounds_required && forallb valid_flag_ok bounds_entries && forallb entry_ok bounds_entries = true.
Proof. vm_compute. reflexivity. Qed.
"""


def bounds_case(repo, td, mutate):
    kb = fresh("kern_bounds")
    mutate(kb)
    kb.VERIF = td
    kb.input_hash = lambda repo: "selftest"
    os.makedirs(os.path.join(td, "coq", "Gen"), exist_ok=True)
    sys.argv = ["kern_bounds.py", repo]
    kb.main()
    gen = os.path.join(td, "coq", "Gen")
    ok, log = coqc(os.path.join(gen, "Bounds.v"), gen)
    if not ok:
        return None, None, log
    open(os.path.join(gen, "Old.v"), "w").write(OLD_B)
    open(os.path.join(gen, "New.v"), "w").write(NEW_B)
    o, _ = coqc(os.path.join(gen, "Old.v"), gen)
    n, _ = coqc(os.path.join(gen, "New.v"), gen)
    return o, n, ""


def case_valid_false(repo, td):
    """kern_bounds.classify marks ascon_masked_word_xN_replace with size 7 (inside the contract) as an out-of-contract probe AND the
    run as stuck - the old check (`negb be_valid || ok`) ignores the entry"""
    def mutate(kb):
        orig = kb.classify

        def cl(fname, n):
            cases = orig(fname, n)
            if cases and fname.endswith("_replace"):
                cases = [(rec, valid and rec.get("size") != 7, args, regions, br) for (rec, valid, args, regions, br) in cases]
            return cases
        kb.classify = cl
        orig_run = kb.run_case

        def run_case(mod, fname, args, regions, byte_regions):
            if fname.endswith("_replace") and args[2] == ("int", 7):
                return ("stuck", "out-of-bounds: (selftest) pretended overrun", "")
            return orig_run(mod, fname, args, regions, byte_regions)
        kb.run_case = run_case
    return bounds_case(repo, td, mutate)


def case_dropped_function(repo, td):
    """kern_bounds.classify returns no case at all for ascon_masked_word_xN_xor (the function silently leaves the table)"""
    def mutate(kb):
        orig = kb.classify
        kb.classify = lambda fname, n: ([] if fname.endswith("_xor") else orig(fname, n))
    return bounds_case(repo, td, mutate)


def control_words(repo, td):
    """CONTROL: unmodified tools/kern_mword.py - the same old / new lemmas (with the coverage list) must both be accepted"""
    m1 = fresh("kern_mword")
    gen = os.path.join(td, "coq", "Gen"); os.makedirs(gen, exist_ok=True)
    m1.main(repo, gen)
    return fn_case(td, gen, "MWord", "mword_c64_obls", "req_toolkit B64 4 false")


def control_tag(repo, td):
    """CONTROL: unmodified tools/kern_tag.py"""
    kt = fresh("kern_tag")
    gen = os.path.join(td, "coq", "Gen"); os.makedirs(gen, exist_ok=True)
    kt.main(repo, gen)
    p = os.path.join(gen, "TagObl.v")
    txt = "\n".join(l for l in open(p).read().split("\n") if not l.startswith("Lemma "))
    open(p, "w").write(txt)
    return fn_case(td, gen, "TagObl", "nonce_obls", "req_nonce")


def control_bounds(repo, td):
    """CONTROL: unmodified tools/kern_bounds.py"""
    return bounds_case(repo, td, lambda kb: None)


CONTROLS = ("control-words", "control-tag", "control-bounds")
CASES = [("control-words", control_words), ("control-tag", control_tag), ("control-bounds", control_bounds),
         ("unrotate-share2", case_unrotate), ("weak-randomize", case_weak_randomize), ("wrong-function", case_wrong_function),
         ("weak-increment", case_weak_incr), ("kernel-value", case_kernel_value),
         ("valid-false", case_valid_false), ("dropped-function", case_dropped_function)]


def main():
    args = [a for a in sys.argv[1:] if not a.startswith("--")]
    repo = args[0] if args else os.environ.get("VERIF_REPO", "/repo")
    only = [a[7:] for a in sys.argv[1:] if a.startswith("--only=")]
    rc = 0
    for name, fn in CASES:
        if only and name not in only:
            continue
        td = tempfile.mkdtemp(prefix="c10spec-selftest-")
        t0 = time.time()
        try:
            so, se = sys.stdout, sys.stderr
            sys.stdout = open(os.path.join(td, "translator.log"), "w")
            try:
                old, new, err = fn(repo, td)
            finally:
                sys.stdout.close(); sys.stdout = so
            if old is None:
                print("FAIL %s: %s" % (name, err)); rc = 1; continue
            if name in CONTROLS:
                verdict = "ok" if (old and new) else "FAIL: the unmodified translator is rejected"
            else:
                verdict = "ok" if not new else "FAIL: the new check still accepts"
            if not verdict.startswith("ok"):
                rc = 1
            print("%s %-18s old check %s, new check %s   (%s)  [%.0f s]" % (verdict, name, "ACCEPTS" if old else "rejects", "accepts" if new else "REJECTS",
                                                                         " ".join((fn.__doc__ or "").split())[:150], time.time() - t0))
        finally:
            shutil.rmtree(td, ignore_errors=True)
    return rc


if __name__ == "__main__":
    sys.exit(main())
