#!/usr/bin/env python3
"""Seeded-break self-test of the masked rows of C11 layer 1 (tools/kern_ct_masked.py, Obl/CtMaskedObl.v,
Props/Properties_C11_masked.v): applies each selftest/C11-masked-*.patch to a fresh clone of the repository (default /repo),
regenerates coq/Gen/CtMasked*.v from it and verifies that the executor reports the expected stuck runs (MISSING lines naming
function, configuration, public shape and reason) and that Props/Properties_C11_masked.vo no longer checks.

  C11-masked-a-aead128-finalize-branch-on-share.patch          `if (state->M[1].S[0] & 1) ascon_x4_randomize(...)` in
                                                               ascon128_masked_aead_finalize: a branch on one bit of a share word
                                                               (functionally invisible: re-randomising keeps every value)
  C11-masked-b-key128-randomize-secret-index.patch             a volatile load indexed by a byte of the masked key in
                                                               ascon_masked_key_128_randomize (functionally invisible)
  C11-masked-c-encrypt16-pad-offset-from-plaintext.patch       the padding offset of ascon_masked_aead_encrypt_16 depends on the top
                                                               bit of a plaintext byte: a secret-dependent shift count inside
                                                               ascon_masked_word_pad; only ASCON-128a, only DATA_SHARES > 1, only the
                                                               shapes that take that path - the exact-shape requirement catches it
usage: selftest/C11-masked-selftest.py [repo]"""
import os, sys, subprocess, tempfile, shutil, time, re, collections
V = os.path.dirname(os.path.dirname(os.path.abspath(__file__)))
sys.path.insert(0, os.path.join(V, "lib"))
import common

CASES = [
    # patch, (function, configuration) pairs that must be reported stuck, pairs that must NOT be, reason substring
    ("C11-masked-a-aead128-finalize-branch-on-share.patch", [("ascon128_masked_aead_encrypt", "c64_424"), ("ascon128_masked_aead_decrypt", "x86_414"), ("ascon128_masked_aead_encrypt", "c32_222")],
     [("ascon128a_masked_aead_encrypt", "c64_424"), ("ascon_masked_key_128_init", "c64_424")], "data-dependent branch condition"),
    ("C11-masked-b-key128-randomize-secret-index.patch", [("ascon_masked_key_128_randomize", "c64_424"), ("ascon_masked_key_128_randomize", "x86_333"), ("ascon_masked_key_128_randomize", "c32_222")],
     [("ascon_masked_key_160_randomize", "c64_424"), ("ascon128_masked_aead_encrypt", "c64_424")], "data-dependent address"),
    ("C11-masked-c-encrypt16-pad-offset-from-plaintext.patch", [("ascon128a_masked_aead_encrypt", "c64_424"), ("ascon128a_masked_aead_encrypt", "x86_333"), ("ascon128a_masked_aead_encrypt", "c32_222")],
     [("ascon128a_masked_aead_encrypt", "c64_414"), ("ascon128a_masked_aead_decrypt", "c64_424"), ("ascon128_masked_aead_encrypt", "c64_424")], "data-dependent"),
]
TGT = "Props/Properties_C11_masked.vo"


def regenerate(repo):
    return subprocess.run(["python3", os.path.join(V, "tools", "kern_ct_masked.py"), repo], stdout=subprocess.PIPE, stderr=subprocess.STDOUT).stdout.decode()


def main():
    args = [a for a in sys.argv[1:] if not a.startswith("--")]
    repo = args[0] if args else "/repo"
    rc = 0
    td = tempfile.mkdtemp(prefix="c11masked-selftest-")
    try:
        with common.Lock("prove"):
            try:
                for patch, must, mustnot, why in CASES:
                    r = os.path.join(td, "r")
                    shutil.rmtree(r, ignore_errors=True)
                    subprocess.run(["git", "clone", "-q", repo, r], check=True)
                    if subprocess.run(["git", "apply", os.path.join(V, "selftest", patch)], cwd=r).returncode:
                        print("FAIL %s: does not apply" % patch); rc = 1; continue
                    t0 = time.time()
                    out = regenerate(r)
                    stuck = collections.Counter()
                    reasons = {}
                    for l in out.split("\n"):
                        m = re.match(r"^MISSING kern_ct (\S+) \[(\w+)\](?: (\{.*?\}))?: (.*)$", l)
                        if m:
                            stuck[(m.group(1), m.group(2))] += 1
                            reasons.setdefault((m.group(1), m.group(2)), m.group(4))
                    if os.path.exists(os.path.join(common.COQ, TGT)):
                        os.remove(os.path.join(common.COQ, TGT))
                    ok, log = common.coq_make([TGT])
                    res = "ok"
                    for q in must:
                        if q not in stuck:
                            res = "FAIL: %s [%s] not reported stuck" % q; rc = 1
                        elif why not in reasons[q]:
                            res = "FAIL: %s [%s] stuck for another reason: %s" % (q + (reasons[q],)); rc = 1
                    for q in mustnot:
                        if q in stuck:
                            res = "FAIL: %s [%s] reported stuck (collateral): %s" % (q + (reasons[q],)); rc = 1
                    if ok.get(TGT):
                        res = "FAIL: %s still checks" % TGT; rc = 1
                    first = must[0]
                    print("%s %s: %d stuck runs in %d (function, configuration) entries, e.g. %s [%s] x %d shapes: %s; theorem file rejected: %s (%.0f s)" % (
                        "done" if res == "ok" else res, patch, sum(stuck.values()), len(stuck), first[0], first[1], stuck.get(first, 0), reasons.get(first, "-")[:90],
                        not ok.get(TGT), time.time() - t0), flush=True)
            finally:
                regenerate(repo)
                if os.path.exists(os.path.join(common.COQ, TGT)):
                    os.remove(os.path.join(common.COQ, TGT))
                ok, log = common.coq_make([TGT])
                if not ok.get(TGT):
                    print("FAIL: %s does not check on the unchanged tree after restoring" % TGT); rc = 1
    finally:
        shutil.rmtree(td, ignore_errors=True)
    if rc == 0:
        print("C11 masked self-test: all seeded leaks reported with function, configuration, shape and reason; theorem file rejected each time")
    return rc


if __name__ == "__main__":
    sys.exit(main())
