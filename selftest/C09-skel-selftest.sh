#!/bin/sh
# Self-test of the acquire/release part of ./check C09 (tools/skeleton.py, Props/Properties_C09_skel.v, lib/p_c09_skel.py).
#
#  1. walker regression: a small synthetic tree (selftest/C09-skel-walker) with goto, switch fall-through, do..while(0),
#     for(;;), continue/break, ?:, &&, two event-bearing operands of +, an address-taken function, an undefined callee,
#     an early return that forgets the release: the MISSING / UNBALANCED lines must be exactly the expected ones.
#  2. seeded changes of the real tree, each in a scratch clone (VERIF_REPO), each of which compiles and passes the
#     project's own 114 ctest tests in the default build (checked with --ctest):
#       C09-skel-xof-absorb-early-return-no-release.patch     ascon_release dropped on the early-return path of ascon_xof_absorb
#       C09-skel-masked-128a-acquire-in-3-data-shares.patch   ascon_acquire added in the DATA_SHARES == 3 branch of
#                                                             ascon128a_masked_aead_finalize (not even compiled by the default build)
#     the theorem file must stop checking and the translator must print the offending path.
#  3. fixes/C09-masked-x1-release-around-trng.patch: the six data-shares-1 findings disappear (the theorem file then asks
#     for fix_masked_x1_nesting := true in coq/Model/C09Config.v).
# usage: selftest/C09-skel-selftest.sh [--ctest] [repo]
V=$(cd "$(dirname "$0")/.." && pwd)
CT=0
[ "$1" = "--ctest" ] && { CT=1; shift; }
REPO=${1:-/repo}
T=$(mktemp -d /tmp/c09-skel-selftest-XXXXXX)
rc=0

# ---- 1. walker
out=$(python3 "$V/tools/skeleton.py" "$V/selftest/C09-skel-walker" --backends generic --gen "$T" --json "$T/r.json" --force 2>&1)
grep -v '^#' "$V/selftest/C09-skel-walker/EXPECTED" | while IFS= read -r pat; do
    [ -z "$pat" ] && continue
    case "$pat" in
    !*) p=${pat#!}; echo "$out" | grep -Eq -- "$p" && { echo "FAIL walker: unexpected line matching $p"; echo x > "$T/fail"; } ;;
    *)  echo "$out" | grep -Eq -- "$pat" || { echo "FAIL walker: no line matching $pat"; echo x > "$T/fail"; } ;;
    esac
done
[ -e "$T/fail" ] && rc=1
n=$(echo "$out" | grep -c '^MISSING')
[ "$n" = 4 ] || { echo "FAIL walker: $n MISSING lines, expected 4"; rc=1; }
echo "done walker: $(echo "$out" | tail -1 | cut -c1-160)"

# ---- 2./3. seeded changes and the fix
expect() {   # patch  must-contain...  -- must-not-contain...
    p=$1; shift
    rm -rf "$T/r"; git clone -q "$REPO" "$T/r" || exit 2
    (cd "$T/r" && git apply "$V/$p") || { echo "FAIL $p: does not apply"; rc=1; return; }
    if [ $CT = 1 ]; then
        (cmake -G Ninja -S "$T/r" -B "$T/b" > /dev/null 2>&1 && cmake --build "$T/b" > "$T/b.log" 2>&1 && cd "$T/b" && ctest -j8 2>&1 | grep -q '100% tests passed') \
            || { echo "FAIL $p: the changed tree does not build or does not pass ctest"; rc=1; }
        rm -rf "$T/b"
    fi
    out=$(cd "$V" && VERIF_REPO="$T/r" python3 lib/p_c09_skel.py 2>&1 | grep -A14 '^VIOLATION\|^NOTE')
    neg=0
    for w in "$@"; do
        if [ "$w" = "--" ]; then neg=1; continue; fi
        if [ $neg = 0 ]; then echo "$out" | grep -q -- "$w" || { echo "FAIL $p: expected output matching $w"; rc=1; }
        else echo "$out" | grep -q -- "$w" && { echo "FAIL $p: unexpected output matching $w"; rc=1; }; fi
    done
    echo "done $p: $(echo "$out" | grep '^VIOLATION' | sed 's/VIOLATION(would be) //' | tr '\n' ' ' | cut -c1-300)"
}
expect selftest/C09-skel-xof-absorb-early-return-no-release.patch 'ar-unbalanced:ascon_xof_absorb@data1234' 'return at src/hash/ascon-xof.c:250' 'ends with the flag still held' 'ar-proof-broken'
expect selftest/C09-skel-masked-128a-acquire-in-3-data-shares.patch 'ar-unbalanced:ascon128a_masked_aead_encrypt@data3' 'ar-unbalanced:ascon128a_masked_aead_decrypt@data3' 'ascon_acquire at src/aead/ascon-aead-masked-128a.c:108: flag clear -> held' 'ar-proof-broken' -- 'ar-unbalanced:ascon128_masked_aead_encrypt@data3'
if grep -q 'fix_masked_x1_nesting : bool := false' "$V/coq/Model/C09Config.v"; then
    expect fixes/C09-masked-x1-release-around-trng.patch 'set it to true' -- 'ar-unbalanced'
fi
# put the generated files back to the real tree's
(cd "$V" && VERIF_REPO="$REPO" python3 tools/skeleton.py > /dev/null 2>&1)
rm -rf "$T"
[ $rc = 0 ] && echo "C09 acquire/release self-test: walker regression ok, seeded changes rejected with a path, fix accepted"
exit $rc
